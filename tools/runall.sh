#!/bin/bash
# Run every registered check (tier given as $1, default quick) and validate
# the evidence files against the schema. Prints one line per check.
cd "$(dirname "$0")/.."
tier=${1:-quick}
rc=0
for id in C01 C02 C03 C04 C05 C06 C07 C08 C09 C10 C11 C12 C13 C14 C15 C16 C17 C18 C19 C20; do
    t0=$(date +%s)
    out=$(./check $id $tier 2>&1); code=$?
    t1=$(date +%s)
    echo "$id exit=$code $((t1-t0))s $(echo "$out" | grep -E "^$id " | tail -1)"
    if [ $code -ne 0 ]; then echo "$out" | grep -E "VIOLATION|HARNESS|sub-check" | head -10; rc=1; fi
done
python3-vt - <<'PY'
import json, jsonschema, glob
sch = json.load(open('/root/.vp/EVIDENCE.schema.json'))
bad = 0
for f in sorted(glob.glob('evidence/*.json')):
    try:
        jsonschema.validate(json.load(open(f)), sch)
    except Exception as e:
        bad += 1; print("INVALID", f, str(e)[:200])
print("evidence files valid" if not bad else f"{bad} invalid evidence files")
PY
exit $rc
