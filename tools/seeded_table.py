#!/usr/bin/env python3
"""Print the markdown table of seeded changes (DESIGN.md section 7.5) from
seeded/*/meta.json."""
import json
from pathlib import Path

VERIF = Path(__file__).resolve().parent.parent
rows = []
for d in sorted((VERIF / "seeded").iterdir()):
    m = json.loads((d / "meta.json").read_text())
    chk = m.get("checks_run", {})
    det = "; ".join(f"{k} {v['tier']}: "
                    + ("detected" if v["exit"] == 1 else
                       "not detected" if v["exit"] == 0 else "harness error")
                    for k, v in chk.items())
    first = ""
    for k, v in chk.items():
        for ln in v.get("output", []):
            if "sub-check" in ln:
                first = ln.strip().split(":", 1)[0].replace("sub-check ", "")
                break
        if first:
            break
    note = m.get("strengthened", "")
    rows.append((d.name, m.get("summary", "").replace("|", "/"),
                 m.get("needs", "").replace("|", "/"), det, first, note))
print("| id | change | needs | result of the registered check | reporting "
      "sub-check | note |")
print("|---|---|---|---|---|---|")
for r in rows:
    print("| " + " | ".join(x.replace("\n", " ")[:400] for x in r) + " |")
