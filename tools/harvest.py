#!/usr/bin/env python3
"""For every 'fixed' entry of known_findings.json: revert that one fix in a
scratch worktree of /repo, run the property's quick check against it and keep
the (shrunk, confirmed) failing inputs as regressions/<PROP>/<Did>--<sub>.json.

The kept inputs are then replayed against the current tree (must pass).
Development tool - not part of the registered checks.
"""
import json
import os
import shutil
import subprocess
import sys
import tempfile
from pathlib import Path

VERIF = Path(__file__).resolve().parent.parent


def main():
    only = set(sys.argv[1:])
    kf = json.loads((VERIF / "known_findings.json").read_text())
    done = set()
    for f in kf["findings"]:
        if f["status"] != "fixed":
            continue
        did, prop, sha = f["id"], f["property"], f["commit"]
        if only and did not in only:
            continue
        if (did, prop) in done:
            continue
        done.add((did, prop))
        wt = Path(tempfile.mkdtemp(prefix="harv_", dir="/tmp"))
        subprocess.run(["git", "-C", "/repo", "worktree", "add", "--detach",
                        "-f", str(wt), "HEAD"], check=True,
                       capture_output=True)
        try:
            r = subprocess.run(["git", "-C", str(wt), "revert", "-n", sha],
                               capture_output=True, text=True)
            if r.returncode != 0:
                print(f"{did} {prop}: revert failed: {r.stderr[:200]}")
                continue
            rdir = VERIF / "out" / "replay" / prop
            shutil.rmtree(rdir, ignore_errors=True)
            env = dict(os.environ, VF_REPO=str(wt))
            p = subprocess.run([str(VERIF / "check"), prop, "quick"],
                               env=env, capture_output=True, text=True)
            files = sorted(rdir.glob("*.json")) if rdir.exists() else []
            print(f"{did} {prop} {sha}: exit={p.returncode} "
                  f"{len(files)} failing inputs")
            dest = VERIF / "regressions" / prop
            dest.mkdir(parents=True, exist_ok=True)
            for fl in files:
                d = json.loads(fl.read_text())
                sub = d["subcheck"].split(".", 1)[1]
                out = dest / f"{did}--{sub}.json"
                d["finding"] = did
                out.write_text(json.dumps(d, indent=1, allow_nan=True))
                # must pass on the current tree
                q = subprocess.run([str(VERIF / "check"), prop, "--replay",
                                    str(out)], capture_output=True,
                                   text=True)
                if q.returncode != 0:
                    print(f"   !! {out.name} fails on the current tree: "
                          f"{q.stdout[-300:]}")
                else:
                    print(f"   kept {out.name}: {d['message'][:110]}")
        finally:
            subprocess.run(["git", "-C", "/repo", "worktree", "remove",
                            "--force", str(wt)], capture_output=True)
            shutil.rmtree(wt, ignore_errors=True)
            subprocess.run(["git", "-C", "/repo", "worktree", "prune"])


if __name__ == "__main__":
    main()
