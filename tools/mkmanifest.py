#!/usr/bin/env python3
"""Regenerate MANIFEST.json from the table below (kept next to the checks so
that the manifest and the machinery cannot drift apart)."""
import json
from pathlib import Path

VERIF = Path(__file__).resolve().parent.parent
BASELINE = ("cd /repo && /venv/bin/python -m pytest -ra -q -p no:cacheprovider"
            " --timeout=900 --continue-on-collection-errors")

NOTE = ("Trusted base: CPython 3.12, numpy/pandas/scipy as installed, "
        "Hypothesis 6.168 as generator/shrinker, gcc/clang; the Cython "
        "wrapper C files are the vendored ones generated from the pinned "
        ".pyx (Cython is not installed, so a .pyx edit is not re-translated; "
        "the evidence flags it). Verdicts hold for the generated and "
        "enumerated cases only.")

# property -> (technique, level text, design ref)
CHECKS = {}


def entry(pid, technique, text, ref):
    CHECKS[pid] = (technique, text, ref)


H = "Hypothesis property-based testing"
entry("C01", H + " with round-trip oracle over generated transform "
      "parameters (branch values weighted) and domain points constructed in "
      "the transformed variable",
      "13 sub-checks (one per transform class); every generated instance is "
      "checked both ways (backward o forward, forward o backward) to 1e-6 of "
      "the stated scale, on two successive parameter settings of the same "
      "instance, plus backward_censored. A wrong branch, sign or constant "
      "gives an O(1) error on most cases of its class.",
      "DESIGN.md section 3, C01")
entry("C02", H + " with finite-difference and ordered-pair oracles",
      "5-point central differences with exactly representable steps against "
      "jacobian (1e-4), positivity, and monotonicity of forward on generated "
      "ordered pairs down to one ulp apart with an explicit rounding-noise "
      "model per class.",
      "DESIGN.md section 3, C02")
entry("C03", H + " against an independent O(n m^2) reference implementation "
      "plus metamorphic relations",
      "Generated (obs, ensemble) pairs over tie-heavy, outlier, constant and "
      "continuous regimes are compared with the textbook definition and the "
      "decomposition identities; permutation, shift, scale and NaN-removal "
      "relations are checked on every case.",
      "DESIGN.md section 3, C03")
entry("C04", H + " against textbook definitions written independently, "
      "invariances and direct pair counting",
      "Continuous scores on transformed series, excludenull against the "
      "sub-series of complete pairs, confusion matrices against pair counts, "
      "binary scores against contingency-table formulas with odds ratios "
      "below/at/above 1.",
      "DESIGN.md section 3, C04")
entry("C05", "Hypothesis-driven fuzzing of every kernel entry point, each "
      "example executed in a forked child under AddressSanitizer + "
      "UndefinedBehaviorSanitizer, failures bucketed by (error, frame) and "
      "the search repeated with found buckets excluded",
      "44 sub-checks: 37 entry points x boundary shapes (lengths 0/1/2, "
      "NaN/inf/huge, other array shapes, out-of-range cells, options and "
      "labels up to the ends of the integer range), plus enumerated sweeps "
      "(large sizes, sizes around round numbers, read-only inputs, right "
      "border, empty grids). A sanitizer report or signal is the "
      "failure signal; Python exceptions are passes. Instrumented execution "
      "is what makes silent out-of-bounds accesses visible.",
      "DESIGN.md section 3, C05")
entry("C06", "Exhaustive small-scope enumeration plus Hypothesis random "
      "grids against an independent graph model",
      "Every flow grid up to 2x2 / 1x3 over 10 codes x every outlet x inlet "
      "x river start is compared with a Python reachability model built "
      "from the literal ESRI code table; random grids to 12x12 (40x40 "
      "thorough) with cycles, forests, inlets on chains.",
      "DESIGN.md section 3, C06")
entry("C07", H + " plus exhaustive lattice enumeration against the "
      "closed-form numbering",
      "Generated geometries (cell sizes over 8 orders of magnitude, large "
      "origins, single rows/columns) with points inside every footprint and "
      "outside on all 8 sides from 1e-9 to 1e6 cells; all quarter-lattice "
      "points of every grid up to 6x6.",
      "DESIGN.md section 3, C07")
entry("C08", H + " against a group-by reference model and calendar "
      "arithmetic",
      "Generated run-length index vectors (int32 extremes), NaN patterns "
      "per group, all operators and maxnan values against np.unique-based "
      "group reductions, total conservation, rejection of decreasing "
      "indices; monthly2daily against the calendar and monthly sums.",
      "DESIGN.md section 3, C08")
entry("C09", H + " round-trip through the file system in all storage "
      "modes",
      "Generated frames (text with separators/quotes, integers to 2^53, "
      "floats under four formats), comment dictionaries with colons, plain "
      "/ zip under four kinds of names / archive member; everything read "
      "back must equal what was written to the precision of the format.",
      "DESIGN.md section 3, C09")
entry("C10", H + " against an independent Weigel-Mason implementation, "
      "rank invariances and textbook statistics",
      "Lattice-valued ensembles with exact ties across forecasts; monotone "
      "maps and member permutations; PIT counting oracle and pseudo-PIT "
      "flag; CvM / AD statistics from their formulas, order independence, "
      "p-value ranges, rejection of out-of-range data.",
      "DESIGN.md section 3, C10")
entry("C11", "Exhaustive small-scope enumeration plus Hypothesis random "
      "grids against the graph model of C06",
      "Every small grid with a default and a non-uniform field whose subset "
      "sums are all distinct; random forests with fields of five kinds, "
      "three flow dtypes, nprint and cap options; accumulation must equal "
      "the sum over all upstream cells.",
      "DESIGN.md section 3, C11")
entry("C12", "Model-based stateful testing: exhaustive operation sequences "
      "to depth 3/4, a Hypothesis RuleBasedStateMachine over a pool of live "
      "vectors, and generated interleavings of transform calls, all against "
      "a plain-Python reference model",
      "After every step the full observable state (values, bounds, "
      "defaults, names, flags, to_dict) of every live vector equals its "
      "model, so leaks between clones / dictionary copies and lost flags "
      "show at the step where they happen.",
      "DESIGN.md section 3, C12")
entry("C13", H + " round-trip oracle over dtypes, byte orders, loaders, "
      "clip boxes and catchments",
      "Bit-exact comparison of data and exact comparison of georeferencing "
      "after save/load (3 loaders, byte order I and M), dictionary/JSON, "
      "clone (independence both ways) and clip (block and coinciding "
      "centres); catchment dictionaries with inlets.",
      "DESIGN.md section 3, C13")
entry("C14", H + " against an exact integer-second reference integrator",
      "Irregular series with duplicates, boundary stamps, long gaps, NaN "
      "and negative values, both periods, rainfall flag, four index units "
      "and four DST-free zones; every period is classified must-be-missing "
      "/ must-equal-the-reference / either.",
      "DESIGN.md section 3, C14")
entry("C15", H + " against an exact rational crossing-number oracle plus "
      "metamorphic relations",
      "Lattice, random and star polygons with points level with vertices; "
      "exact Fraction arithmetic decides inside/outside, points within 1e-6 "
      "of the boundary are not judged; vertex-list rotation/reversal/"
      "closing and exact dyadic shift/scale must not change answers.",
      "DESIGN.md section 3, C15")
entry("C16", H + " with a validity predicate in exact dyadic arithmetic",
      "Weights must lie between the count of fine centres strictly inside "
      "and inside-or-on-edge of each coarse cell, totals likewise, area "
      "grid placement exact; Voronoi weights equal nearest-point fractions "
      "with ties to the lowest index.",
      "DESIGN.md section 3, C16")
entry("C17", H + " against a direct Python recursion and the inverse "
      "relation",
      "Orders 1..10, coefficients with sum|phi| up to 1.5, NaN anywhere "
      "including the first steps, default/explicit mean and initial value; "
      "sim = recursion, residual(sim(e)) = e, sim(residual(y)) = y, "
      "rejection of orders 0/11 and NaN parameters.",
      "DESIGN.md section 3, C17")
entry("C18", "Snapshot-and-compare over a registry of ~120 call "
      "specifications: exhaustive over argument variants (layout x dtype x "
      "container) plus Hypothesis-generated data",
      "Byte-level snapshots of every argument before, between and after two "
      "identical calls (seed re-applied) and comparison of the two results. "
      "An in-place sort, jitter or column insertion changes the snapshot.",
      "DESIGN.md section 3, C18")
entry("C19", "Exhaustive enumeration of (nelements, nbatch) pairs plus "
      + H + " of option dictionaries against itertools.product",
      "All pairs up to 80 (400 thorough) with every batch index; generated "
      "option/context dictionaries with bare scalars and renamed keys; "
      "JSON round trip compared both ways; find against direct filtering.",
      "DESIGN.md section 3, C19")
entry("C20", H + " against brute-force / numpy reference statistics",
      "Stratum membership for lhs, symmetry for ppos, rank monotonicity, "
      "brute-force dominance with NaN coordinates, numpy percentiles of "
      "the finite values for box plots (by groups) and violins, kde "
      "profile normalisation.",
      "DESIGN.md section 3, C20")


def main():
    props = [json.loads(l) for l in
             (VERIF / "properties.jsonl").read_text().splitlines() if l.strip()]
    checks = []
    na = []
    for p in props:
        pid = p["id"]
        mod = VERIF / "vf" / "props" / f"{pid.lower()}.py"
        if pid in CHECKS and mod.exists():
            tech, text, ref = CHECKS[pid]
            checks.append({
                "property_id": pid,
                "quick_cmd": f"./check {pid} quick",
                "thorough_cmd": f"./check {pid} thorough",
                "evidence_file": f"evidence/{pid}.json",
                "replay_cmd_template": f"./check {pid} --replay {{path}}",
                "engine": "vf",
                "level_claimed": {"category": "exploration", "text": text,
                                  "design_ref": ref},
                "level_note": NOTE,
                "technique": tech,
            })
        else:
            na.append({"property_id": pid,
                       "reason": "no check registered yet (machinery under "
                                 "construction, see DESIGN.md section 3)"})
    man = {
        "version": 1,
        "setup_cmd": "./setup.sh",
        "hooks": {
            "guard": "HYDRODIY_VERIF",
            "enable": "no source hooks are needed: every check observes the "
                      "public API (and the sanitizer runtime for C05) of "
                      "extensions it rebuilds itself from /repo's working "
                      "tree; the guard variable is reserved and unused",
            "baseline_off_cmd": BASELINE,
            "source_commits": [],
            "add_only": True,
        },
        "engines": [{
            "name": "vf",
            "path": "vf/",
            "serves_properties": sorted(c["property_id"] for c in checks),
            "kind_free_text": "Hypothesis-driven property-based testing "
                              "(stateless, stateful, exhaustive small-scope "
                              "enumeration, fork-per-example under "
                              "ASan/UBSan) with explicit reference oracles",
        }],
        "checks": checks,
        "notes": "Defects found on the pinned tree were repaired by 'fix:' "
                 "commits in /repo and are listed in known_findings.json; "
                 "their shrunk inputs are replayed from regressions/ on "
                 "every run.",
        "not_applicable": na,
    }
    (VERIF / "MANIFEST.json").write_text(json.dumps(man, indent=1) + "\n")
    print(f"{len(checks)} checks, {len(na)} not claimed")


if __name__ == "__main__":
    main()
