#!/usr/bin/env python3
"""Regenerate MANIFEST.json from the table below (kept next to the checks so
that the manifest and the machinery cannot drift apart)."""
import json
from pathlib import Path

VERIF = Path(__file__).resolve().parent.parent
BASELINE = ("cd /repo && /venv/bin/python -m pytest -ra -q -p no:cacheprovider"
            " --timeout=900 --continue-on-collection-errors")

NOTE = ("Trusted base: CPython 3.12, numpy/pandas/scipy as installed, "
        "Hypothesis 6.168 as generator/shrinker, gcc/clang; the Cython "
        "wrapper C files are the vendored ones generated from the pinned "
        ".pyx (Cython is not installed, so a .pyx edit is not re-translated; "
        "the evidence flags it). Verdicts hold for the generated and "
        "enumerated cases only.")

# property -> (technique, level text, design ref)
CHECKS = {}


def entry(pid, technique, text, ref):
    CHECKS[pid] = (technique, text, ref)


entry("C03",
      "Hypothesis property-based testing against an independent O(n m^2) "
      "reference implementation plus metamorphic relations",
      "Generated (obs, ensemble) pairs over tie-heavy, outlier, constant and "
      "continuous regimes are compared with the textbook definition and the "
      "decomposition identities; permutation, shift, scale and NaN-removal "
      "relations are checked on every case. Exploration level: a wrong bin, "
      "tie rule or uncertainty term produces an O(1) discrepancy on a large "
      "fraction of the generated cases.",
      "DESIGN.md section 3, C03")


def main():
    props = [json.loads(l) for l in
             (VERIF / "properties.jsonl").read_text().splitlines() if l.strip()]
    checks = []
    na = []
    for p in props:
        pid = p["id"]
        mod = VERIF / "vf" / "props" / f"{pid.lower()}.py"
        if pid in CHECKS and mod.exists():
            tech, text, ref = CHECKS[pid]
            checks.append({
                "property_id": pid,
                "quick_cmd": f"./check {pid} quick",
                "thorough_cmd": f"./check {pid} thorough",
                "evidence_file": f"evidence/{pid}.json",
                "replay_cmd_template": f"./check {pid} --replay {{path}}",
                "engine": "vf",
                "level_claimed": {"category": "exploration", "text": text,
                                  "design_ref": ref},
                "level_note": NOTE,
                "technique": tech,
            })
        else:
            na.append({"property_id": pid,
                       "reason": "no check registered yet (machinery under "
                                 "construction, see DESIGN.md section 3)"})
    man = {
        "version": 1,
        "setup_cmd": "./setup.sh",
        "hooks": {
            "guard": "HYDRODIY_VERIF",
            "enable": "no source hooks are needed: every check observes the "
                      "public API (and the sanitizer runtime for C05) of "
                      "extensions it rebuilds itself from /repo's working "
                      "tree; the guard variable is reserved and unused",
            "baseline_off_cmd": BASELINE,
            "source_commits": [],
            "add_only": True,
        },
        "engines": [{
            "name": "vf",
            "path": "vf/",
            "serves_properties": sorted(c["property_id"] for c in checks),
            "kind_free_text": "Hypothesis-driven property-based testing "
                              "(stateless, stateful, exhaustive small-scope "
                              "enumeration, fork-per-example under "
                              "ASan/UBSan) with explicit reference oracles",
        }],
        "checks": checks,
        "notes": "Defects found on the pinned tree were repaired by 'fix:' "
                 "commits in /repo and are listed in known_findings.json; "
                 "their shrunk inputs are replayed from regressions/ on "
                 "every run.",
        "not_applicable": na,
    }
    (VERIF / "MANIFEST.json").write_text(json.dumps(man, indent=1) + "\n")
    print(f"{len(checks)} checks, {len(na)} not claimed")


if __name__ == "__main__":
    main()
