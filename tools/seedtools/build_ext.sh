#!/bin/bash
# usage: build_ext.sh <worktree>
# Rebuilds the three compiled extension modules of hydrodiy from the C kernels
# of <worktree>/src/hydrodiy (data, stat, gis) and installs them in
# <worktree>/src/ (Cython is not installed in this sandbox: the Cython
# generated wrapper C files are taken from /repo, they only depend on the .pyx
# files, which therefore cannot be changed).
set -e
WT=$1
SRC=$WT/src/hydrodiy
GEN=/repo/src/hydrodiy
OUT=$WT/src
PYINC=$(/venv/bin/python -c "import sysconfig; print(sysconfig.get_paths()['include'])")
NPINC=$(/venv/bin/python -c "import numpy; print(numpy.get_include())")
SFX=$(/venv/bin/python -c "import sysconfig; print(sysconfig.get_config_var('EXT_SUFFIX'))")
CC="gcc -O2 -g0 -fno-strict-overflow -shared -fPIC -w -I$PYINC -I$NPINC"
( $CC -I$SRC/data $GEN/data/c_hydrodiy_data.c $SRC/data/c_dateutils.c $SRC/data/c_qualitycontrol.c $SRC/data/c_dutils.c $SRC/data/c_var2h.c $SRC/data/c_baseflow.c -o $OUT/c_hydrodiy_data$SFX -lm ) &
( $CC -I$SRC/stat $GEN/stat/c_hydrodiy_stat.c $SRC/stat/c_crps.c $SRC/stat/c_dscore.c $SRC/stat/c_olsleverage.c $SRC/stat/c_armodels.c $SRC/stat/ADinf.c $SRC/stat/AnDarl.c $SRC/stat/c_andersondarling.c $SRC/stat/c_paretofront.c -o $OUT/c_hydrodiy_stat$SFX -lm ) &
( $CC -I$SRC/gis $GEN/gis/c_hydrodiy_gis.c $SRC/gis/c_grid.c $SRC/gis/c_catchment.c $SRC/gis/c_points_inside_polygon.c -o $OUT/c_hydrodiy_gis$SFX -lm ) &
wait
ls $OUT/*.so >/dev/null && echo "extensions built in $OUT"
