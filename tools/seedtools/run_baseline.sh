#!/bin/bash
# usage: run_baseline.sh <worktree>
# Runs the repository's pinned test suite inside <worktree> (importing
# hydrodiy and the compiled extensions from <worktree>/src) and reports
# whether all 183 tests of the stable baseline still pass.
WT=$1
cd $WT
X=$(mktemp /tmp/bl_XXXXXX.xml)
PYTHONPATH=$WT/src MPLBACKEND=Agg /venv/bin/python -m pytest -q -p no:cacheprovider --timeout=900 --continue-on-collection-errors --junitxml=$X > ${X%.xml}.log 2>&1
/venv/bin/python - "$X" <<'PY'
import json, sys, xml.etree.ElementTree as ET
bl = json.load(open('/root/.vp/BASELINE.json'))
ok = set()
for tc in ET.parse(sys.argv[1]).iter('testcase'):
    if not any(c.tag in ('failure', 'error', 'skipped') for c in tc):
        ok.add(tc.get('classname') + '::' + tc.get('name'))
st = set(bl['stable_pass'])
miss = sorted(st - ok)
print(f"baseline: {len(st & ok)} of {len(st)} stable tests pass")
for m in miss: print("  NOT PASSING:", m)
sys.exit(1 if miss else 0)
PY
rc=$?
rm -f $X
exit $rc
