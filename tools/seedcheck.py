#!/usr/bin/env python3
"""Confirm a seeded property-breaking change produced by a sub-agent and run
the registered check against it.

usage: seedcheck.py <ID> [<src dir with patch.diff, demo.py, meta.json>]
                    [--name <variant>] [--tier quick|thorough] [--keep]

Steps (all in a fresh scratch worktree of /repo under /tmp, removed at the
end): build, demo on the unchanged tree (must exit 0), apply the patch,
rebuild, the repository's pinned suite (183 stable tests must pass), demo
(must exit non-zero), then `./check <ID> <tier>` with VF_REPO pointing at the
worktree.  Confirmed changes are stored under /verif/seeded/<ID>[-variant]/.
"""
import argparse
import json
import os
import shutil
import subprocess
import sys
import tempfile
from pathlib import Path

VERIF = Path(__file__).resolve().parent.parent


def run(cmd, **kw):
    return subprocess.run(cmd, capture_output=True, text=True, **kw)


def main():
    ap = argparse.ArgumentParser()
    ap.add_argument("prop")
    ap.add_argument("src", nargs="?")
    ap.add_argument("--name", default="")
    ap.add_argument("--tier", default="quick")
    ap.add_argument("--checks", default="",
                    help="comma separated extra property ids to run as well")
    ap.add_argument("--nostore", action="store_true")
    a = ap.parse_args()
    prop = a.prop.upper()
    src = Path(a.src) if a.src else Path(f"/tmp/seed_{prop}/OUT")
    patch, demo = src / "patch.diff", src / "demo.py"
    meta = json.loads((src / "meta.json").read_text()) \
        if (src / "meta.json").exists() else {}
    wt = Path(tempfile.mkdtemp(prefix=f"sc_{prop}_", dir="/tmp"))
    run(["git", "-C", "/repo", "worktree", "add", "--detach", "-f", str(wt),
         "HEAD"], check=True)
    res = {"property": prop, "ran": []}
    env = dict(os.environ, PYTHONPATH=f"{wt}/src", MPLBACKEND="Agg")
    try:
        b = run([str(VERIF / "tools/seedtools/build_ext.sh"), str(wt)])
        assert b.returncode == 0, b.stderr[-500:]
        d0 = run(["/venv/bin/python", str(demo)], env=env, cwd=wt)
        res["demo_unchanged_exit"] = d0.returncode
        ap_ = run(["git", "-C", str(wt), "apply", str(patch)])
        if ap_.returncode != 0:
            print("PATCH DOES NOT APPLY:", ap_.stderr[-400:])
            return 2
        b = run([str(VERIF / "tools/seedtools/build_ext.sh"), str(wt)])
        if b.returncode != 0:
            print("BUILD FAILS:", b.stderr[-800:])
            return 2
        bl = run([str(VERIF / "tools/seedtools/run_baseline.sh"), str(wt)])
        res["baseline"] = bl.stdout.strip().splitlines()[0] \
            if bl.stdout.strip() else "?"
        res["baseline_ok"] = bl.returncode == 0
        d1 = run(["/venv/bin/python", str(demo)], env=env, cwd=wt)
        res["demo_changed_exit"] = d1.returncode
        res["demo_changed_output"] = (d1.stdout + d1.stderr)[-600:]
        print(f"{prop}: demo unchanged={d0.returncode} changed="
              f"{d1.returncode}; {res['baseline']}")
        confirmed = d0.returncode == 0 and d1.returncode != 0 \
            and res["baseline_ok"]
        res["confirmed"] = confirmed
        # the .so built above by build_ext.sh sit in wt/src: the checks build
        # their own, and put their build dir first on the path
        ids = [prop] + [x for x in a.checks.split(",") if x]
        res["checks"] = {}
        for cid in ids:
            env2 = dict(os.environ, VF_REPO=str(wt))
            c = run([str(VERIF / "check"), cid, a.tier], env=env2)
            lines = [ln for ln in c.stdout.splitlines()
                     if ln.startswith(("VIOLATION", "  sub-check", cid))]
            res["checks"][cid] = {"tier": a.tier, "exit": c.returncode,
                                  "output": [ln[:300] for ln in lines[:8]]}
            print(f"  ./check {cid} {a.tier}: exit={c.returncode} "
                  f"({'DETECTED' if c.returncode == 1 else 'not detected' if c.returncode == 0 else 'HARNESS ERROR'})")
            for ln in lines[:6]:
                print("     " + ln[:240])
            if c.returncode == 2:
                print(c.stderr[-1500:])
        if confirmed and not a.nostore:
            dest = VERIF / "seeded" / (prop + (f"-{a.name}" if a.name
                                               else ""))
            dest.mkdir(parents=True, exist_ok=True)
            shutil.copy(patch, dest / "patch.diff")
            shutil.copy(demo, dest / "demo.py")
            meta.update({
                "property": prop,
                "confirmed_by": "tools/seedcheck.py: fresh worktree of "
                                "/repo HEAD, extensions rebuilt, demo exit 0 "
                                "without / non-zero with the change, pinned "
                                "suite re-run with the change",
                "baseline_with_change": res["baseline"],
                "demo_exit_unchanged": d0.returncode,
                "demo_exit_changed": d1.returncode,
                "checks_run": res["checks"],
            })
            (dest / "meta.json").write_text(json.dumps(meta, indent=1))
            print(f"  stored in {dest}")
        elif not confirmed:
            print("  NOT CONFIRMED:", json.dumps(
                {k: res[k] for k in ("demo_unchanged_exit",
                                     "demo_changed_exit", "baseline")}))
            if not res["baseline_ok"]:
                print(bl.stdout[-600:])
        return 0
    finally:
        run(["git", "-C", "/repo", "worktree", "remove", "--force", str(wt)])
        shutil.rmtree(wt, ignore_errors=True)
        run(["git", "-C", "/repo", "worktree", "prune"])


if __name__ == "__main__":
    sys.exit(main())
