#!/usr/bin/env python3
"""Replace the per-change table of DESIGN.md section 7.5 by the current
output of tools/seeded_table.py.  Development tool."""
import subprocess
import sys
from pathlib import Path

VERIF = Path(__file__).resolve().parent.parent
new = subprocess.run([sys.executable, str(VERIF / "tools/seeded_table.py")],
                     capture_output=True, text=True, check=True).stdout
new = [ln for ln in new.splitlines() if ln.startswith("|")]
lines = (VERIF / "DESIGN.md").read_text().split("\n")
start = next(i for i, ln in enumerate(lines)
             if ln.startswith("| id | change | needs"))
end = start
while end < len(lines) and lines[end].startswith("|"):
    end += 1
lines[start:end] = new
(VERIF / "DESIGN.md").write_text("\n".join(lines))
print(f"table: {end - start} -> {len(new)} lines")
