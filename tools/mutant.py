#!/usr/bin/env python3
"""Sensitivity testing: apply one mutation to a scratch worktree of /repo
and run a check against it (VF_REPO), then remove the worktree.

usage: mutant.py <PROP> <tier> <file relative to src/hydrodiy> <old> <new> [--only sub]
       mutant.py <PROP> <tier> --rev <git revision>       (e.g. pre-fix tree)
       mutant.py <PROP> <tier> --patch <diff file>
Prints the check output and 'MUTANT exit=<code>'.
"""
import os
import shutil
import subprocess
import sys
import tempfile
from pathlib import Path

VERIF = Path(__file__).resolve().parent.parent


def sub(path, old, new):
    b = path.read_bytes()
    o, n = old.encode(), new.encode()
    if b"\r\n" in b:
        o = o.replace(b"\r\n", b"\n").replace(b"\n", b"\r\n")
        n = n.replace(b"\r\n", b"\n").replace(b"\n", b"\r\n")
    if b.count(o) < 1:
        raise SystemExit(f"pattern not found in {path}: {old!r}")
    path.write_bytes(b.replace(o, n, 1))


def main():
    a = sys.argv[1:]
    prop, tier = a[0], a[1]
    rest = a[2:]
    extra = []
    if "--only" in rest:
        i = rest.index("--only")
        extra = ["--only", rest[i + 1]]
        rest = rest[:i] + rest[i + 2:]
    wt = Path(tempfile.mkdtemp(prefix="mut_", dir="/tmp"))
    rev = "HEAD"
    if rest[0] == "--rev":
        rev = rest[1]
    subprocess.run(["git", "-C", "/repo", "worktree", "add", "--detach", "-f",
                    str(wt), rev], check=True, capture_output=True)
    try:
        if rest[0] == "--patch":
            subprocess.run(["git", "-C", str(wt), "apply",
                            str(Path(rest[1]).resolve())], check=True)
        elif rest[0] != "--rev":
            for i in range(0, len(rest), 3):
                sub(wt / "src/hydrodiy" / rest[i], rest[i + 1], rest[i + 2])
        env = dict(os.environ, VF_REPO=str(wt))
        p = subprocess.run([str(VERIF / "check"), prop, tier] + extra,
                           env=env)
        print(f"MUTANT exit={p.returncode}")
    finally:
        subprocess.run(["git", "-C", "/repo", "worktree", "remove", "--force",
                        str(wt)], capture_output=True)
        shutil.rmtree(wt, ignore_errors=True)
        subprocess.run(["git", "-C", "/repo", "worktree", "prune"])


if __name__ == "__main__":
    main()
