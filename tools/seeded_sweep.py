#!/usr/bin/env python3
"""Run the registered quick check of every stored seeded change against a
scratch worktree of /repo with the change applied (no demo / baseline re-run:
tools/seedcheck.py did that when the change was stored).

usage: seeded_sweep.py [<name> ...]      e.g. C01 C01-b   (default: all)
Prints one line per change; exit 1 if a change is not detected.
"""
import json
import os
import shutil
import subprocess
import sys
import tempfile
from pathlib import Path

VERIF = Path(__file__).resolve().parent.parent


def run(cmd, **kw):
    return subprocess.run(cmd, capture_output=True, text=True, **kw)


def main():
    names = sys.argv[1:] or sorted(d.name for d in (VERIF / "seeded").iterdir())
    missed = []
    for name in names:
        d = VERIF / "seeded" / name
        prop = name.split("-")[0]
        wt = Path(tempfile.mkdtemp(prefix=f"sw_{name}_", dir="/tmp"))
        run(["git", "-C", "/repo", "worktree", "add", "--detach", "-f",
             str(wt), "HEAD"], check=True)
        try:
            a = run(["git", "-C", str(wt), "apply", str(d / "patch.diff")])
            if a.returncode != 0:
                print(f"{name}: PATCH DOES NOT APPLY {a.stderr[-200:]}")
                missed.append(name)
                continue
            c = run([str(VERIF / "check"), prop, "quick"],
                    env=dict(os.environ, VF_REPO=str(wt)))
            first = next((ln.strip() for ln in c.stdout.splitlines()
                          if ln.startswith("  sub-check")), "")
            verdict = {0: "NOT DETECTED", 1: "detected"}.get(
                c.returncode, f"HARNESS ERROR {c.returncode}")
            print(f"{name}: {verdict} {first[:160]}", flush=True)
            if c.returncode != 1:
                missed.append(name)
        finally:
            run(["git", "-C", "/repo", "worktree", "remove", "--force",
                 str(wt)])
            shutil.rmtree(wt, ignore_errors=True)
            run(["git", "-C", "/repo", "worktree", "prune"])
    print(f"{len(names) - len(missed)} of {len(names)} detected; missed: "
          f"{missed}")
    return 1 if missed else 0


if __name__ == "__main__":
    sys.exit(main())
