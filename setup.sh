#!/bin/bash
# Offline set-up: make sure hypothesis is importable by /venv/bin/python and
# pre-build the extension modules (both flavours) from /repo's working tree.
set -e
cd "$(dirname "$0")"
if ! /venv/bin/python -c "import hypothesis" 2>/dev/null; then
    /venv/bin/pip install --no-index --find-links /opt/veriftools/wheels hypothesis
fi
/venv/bin/python -m vf.build norm asan
echo "setup ok"
