"""C17 - AR simulation and residual computation are exact inverses."""
import math

import numpy as np
import pandas as pd
from hypothesis import strategies as st

from vf.core import Sub, Violation, Skip
from hydrodiy.stat import armodels

PROPERTY = "C17"
RULE = ("Hypothesis-generated AR models: order 1..10 (0 and 11 for "
        "rejection), normal coefficients rescaled to sum|phi| = U(0, 1.5) "
        "with any sign, mean and initial value N(0,10)-like, series length "
        "in {0,1,2,5,50,500} (thorough 5000), NaN probability 0.1 including "
        "the first `order` steps, one long series in three with a run of "
        "99..257 or n/2 missing values (often with slowly decaying "
        "coefficients such as 0.99, 1.0, [0.6, 0.39]), default and explicit sim_mean/sim_ini, "
        "contiguous and strided inputs, scalar coefficient for order 1. "
        "Oracle: direct Python recursion y[t]-m = sum_k phi[k](y[t-k]-m) + "
        "e[t] with all lags initialised to ini-m and NaN innovations as 0; "
        "residual(sim(e)) = e (0 at NaN positions); sim(residual(y)) = y at "
        "non-NaN positions and the model prediction at NaN positions; "
        "tolerance 1e-9 * running max(|y|+|m|+1) (+1e-12 x the same noise propagated through the recursion with gain max(1, sum|phi|) for simulated series); orders 0 and 11 and NaN "
        "coefficient / mean / initial value raise ValueError. Non-trivial = "
        "order >= 5, or a negative coefficient, or NaN within the first "
        "`order` steps.")

norm = st.floats(-3., 3., allow_nan=False)


@st.composite
def cases(draw, tier):
    order = draw(st.integers(1, 10))
    raw = [draw(norm) for _ in range(order)]
    if all(r == 0 for r in raw):
        raw[0] = 1.0
    tot = draw(st.floats(0., 1.5, allow_nan=False))
    s = sum(abs(r) for r in raw)
    phi = [r / s * tot for r in raw]
    lens = [50, 5, 2, 500, 1, 0, 127, 128, 129, 1023, 1024, 1025] \
        + ([5000, 4096, 4097, 65537] if tier == "thorough" else [])
    n = draw(st.sampled_from(lens))
    if n <= 50:
        innov = [draw(norm) for _ in range(n)]
        nanpos = [i for i in range(n) if draw(st.integers(0, 9)) == 0]
    else:
        # long series: a drawn seed expands deterministically
        seed = draw(st.integers(0, 2**31 - 1))
        rng = np.random.RandomState(seed)
        innov = rng.normal(size=n).tolist()
        nanpos = np.where(rng.uniform(size=n) < 0.1)[0].tolist()
    if n >= 127 and draw(st.integers(0, 2)) == 0:
        # one long run of missing values (around 100, 256, half the series),
        # at the start or further on, often with slowly decaying coefficients
        L = min(draw(st.sampled_from([99, 100, 101, 102, 150, 255, 256, 257,
                                      n // 2])), n - 2)
        s0 = draw(st.sampled_from([0, 0, 1, 7, n - L - 1, (n - L) // 2]))
        s0 = max(0, min(s0, n - L))
        nanpos = sorted(set(nanpos) | set(range(s0, s0 + L)))
        if draw(st.integers(0, 2)) > 0:
            phi = draw(st.sampled_from([[0.99], [1.0], [0.6, 0.39], [1.02],
                                        [0.5, 0.5], [-1.0], [0.999],
                                        [0.2, 0.3, 0.49], [0.0, 1.0]]))
    mean = 10 * draw(norm)
    ini = draw(st.one_of(st.none(), norm.map(lambda v: 10 * v)))
    if n <= 50 and draw(st.integers(0, 4)) == 0:
        # whole-number data and dyadic coefficients: simulated values land
        # exactly on the mean, on zero, on each other
        order = draw(st.integers(1, 3))
        phi = [draw(st.sampled_from([-0.5, -0.25, 0.25, 0.5]))
               for _ in range(order)]
        innov = [float(draw(st.integers(-3, 3))) for _ in range(n)]
        mean = float(draw(st.integers(-3, 3)))
        ini = draw(st.one_of(st.none(),
                             st.integers(-3, 3).map(float)))
    return {"phi": phi, "mean": mean,
            "ini": ini,
            "innov": innov, "nanpos": nanpos,
            "explicit_mean": draw(st.booleans()),
            "strided": draw(st.booleans()),
            "scalar_param": draw(st.booleans()),
            "swapped": draw(st.integers(0, 4)) == 0,
            "pcont": draw(st.sampled_from(["array", "array", "list", "tuple",
                                           "column", "reversed", "swapped"])),
            "badlen": draw(st.sampled_from([0, 0, 1, 2, 3, 5])),
            "bad": draw(st.sampled_from(["order0", "order11", "nanparam",
                                         "nanmean", "nanini",
                                         "nanmean-explicit-ini",
                                         "nanmean-ini-equal-mean-of-data",
                                         "order11-trailing-zero",
                                         "order13-trailing-zeros",
                                         "order11-all-zeros",
                                         "order12-leading-zeros",
                                         "order25"]))}


def ref_sim(phi, e, m, ini):
    p = len(phi)
    prev = [ini - m] * p
    out = np.zeros(len(e))
    for t in range(len(e)):
        v = 0.0 if math.isnan(e[t]) else e[t]
        tmp = v + sum(phi[k] * prev[k] for k in range(p))
        prev = [tmp] + prev[:-1]
        out[t] = tmp + m
    return out


def ref_res(phi, y, m, ini):
    p = len(phi)
    prev = [ini - m] * p
    out = np.zeros(len(y))
    pred = np.zeros(len(y))
    for t in range(len(y)):
        model = sum(phi[k] * prev[k] for k in range(p))
        v = y[t] - m
        if math.isnan(v):
            v = model
        out[t] = v - model
        pred[t] = v + m
        prev = [v] + prev[:-1]
    return out, pred


def propagated(scale, A):
    """Bound on rounding noise of relative size 1 injected at every step
    and amplified by the recursion (factor A = max(1, sum|phi|) per step)."""
    B = np.zeros(len(scale))
    b = 0.0
    for t in range(len(scale)):
        b = A * b + scale[t]
        B[t] = b
    return B


def oracle(case):
    phi = np.array(case["phi"], dtype=np.float64)
    p = len(phi)
    m = case["mean"]
    ini = m if case["ini"] is None else case["ini"]
    e = np.array(case["innov"], dtype=np.float64)
    for i in case["nanpos"]:
        e[i] = np.nan
    n = len(e)
    labels = [f"order:{p}", f"n:{n}"]
    if len(case["nanpos"]) >= 99 and any(
            case["nanpos"][i + 98] == case["nanpos"][i] + 98
            for i in range(len(case["nanpos"]) - 98)):
        labels.append("missing-run>=99")
    params = phi.copy()
    if p == 1 and case["scalar_param"]:
        params = float(phi[0])
        labels.append("scalar-param")
    else:
        # the coefficient vector as a list, a tuple, a column of a matrix,
        # a reversed view or float32 values
        pc = case.get("pcont", "array")
        if pc == "list":
            params = phi.tolist()
        elif pc == "tuple":
            params = tuple(phi.tolist())
        elif pc == "column":
            mat = np.zeros((p, 3))
            mat[:, 1] = phi
            params = mat[:, 1]
        elif pc == "reversed":
            params = phi[::-1].copy()[::-1]
        elif pc == "series":
            params = pd.Series(phi)
        elif pc == "swapped":
            params = phi.astype(phi.dtype.newbyteorder())
        labels.append(f"coefficients:{pc}")

    def arr(x):
        if case["strided"] and len(x) > 0:
            big = np.zeros(2 * len(x))
            big[::2] = x
            return big[::2]
        if case.get("swapped"):
            # float64 values stored in the other byte order (read from a
            # binary file written on another platform)
            return x.astype(x.dtype.newbyteorder())
        return x.copy()

    kw = {"sim_mean": m}
    if case["ini"] is not None:
        kw["sim_ini"] = case["ini"]
    # earlier, unrelated floating-point work of the caller (it leaves the
    # processor's "invalid operation" status flag raised)
    _ = float("inf") - float("inf")
    _ = float("nan") < 0.0
    y = armodels.armodel_sim(params, arr(e), **kw)
    if y.shape != e.shape:
        raise Violation(f"sim output shape {y.shape} != {e.shape}")
    yr = ref_sim(phi, e, m, ini)
    # cut explosive cases where the reference leaves the float comfort zone
    big = np.where(~(np.abs(yr) < 1e12))[0]
    cut = int(big[0]) if len(big) else n
    scale = np.maximum.accumulate(np.abs(yr[:cut]) + abs(m) + 1) \
        if cut else np.zeros(0)
    A = max(1.0, float(np.abs(phi).sum()))
    tol_sim = 1e-9 * scale + 1e-12 * propagated(scale, A)
    if not np.all(np.abs(y[:cut] - yr[:cut]) <= tol_sim):
        i = int(np.argmax(~(np.abs(y[:cut] - yr[:cut]) <= tol_sim)))
        raise Violation(
            f"armodel_sim[{i}] = {y[i]!r}, recursion gives {yr[i]!r} "
            f"(order {p}, phi {phi.tolist()}, mean {m}, ini {ini})")
    # residual(sim(e)) = e, zero at missing innovations
    r = armodels.armodel_residual(params, arr(y), **kw)
    e0 = np.where(np.isnan(e), 0.0, e)
    if not np.all(np.abs(r[:cut] - e0[:cut]) <= 1e-9 * scale):
        i = int(np.argmax(~(np.abs(r[:cut] - e0[:cut]) <= 1e-9 * scale)))
        raise Violation(
            f"residual(sim(e))[{i}] = {r[i]!r} != e = {e0[i]!r} (order {p}, "
            f"phi {phi.tolist()}, mean {m}, ini {ini})")

    # inputs with missing values: zero residual there, and sim(residual(y))
    # returns y (model prediction at the missing positions)
    yn = y[:cut].copy()
    for i in case["nanpos"]:
        if i < cut:
            yn[i] = np.nan
    if cut:
        if case["explicit_mean"] or np.all(np.isnan(yn)):
            kw2 = dict(kw)
            m2, ini2 = m, ini
        else:
            kw2 = {}
            m2 = float(np.nanmean(yn))
            ini2 = m2
            labels.append("default-mean")
        r2 = armodels.armodel_residual(params, arr(yn), **kw2)
        rr, pred = ref_res(phi, yn, m2, ini2)
        sc2 = np.maximum.accumulate(np.abs(pred) + abs(m2) + 1)
        if not np.all(np.abs(r2 - rr) <= 1e-9 * sc2):
            i = int(np.argmax(~(np.abs(r2 - rr) <= 1e-9 * sc2)))
            raise Violation(f"armodel_residual[{i}] = {r2[i]!r}, recursion "
                            f"gives {rr[i]!r} (order {p})")
        nanidx = np.isnan(yn)
        # zero up to the rounding of the two summation orders of the kernel
        if np.any(np.abs(r2[nanidx]) > 1e-12 * sc2[nanidx]):
            raise Violation("missing input does not give a zero residual: "
                            f"{r2[nanidx][:5]}")
        y2 = armodels.armodel_sim(params, arr(r2), sim_mean=m2, sim_ini=ini2)
        tol2 = 1e-9 * sc2 + 1e-12 * propagated(sc2, A)
        if not np.all(np.abs(y2 - pred) <= tol2):
            i = int(np.argmax(~(np.abs(y2 - pred) <= tol2)))
            raise Violation(
                f"sim(residual(y))[{i}] = {y2[i]!r}, expected "
                f"{'model prediction' if nanidx[i] else 'y'} {pred[i]!r} "
                f"(order {p}, phi {phi.tolist()})")

    # the same coefficient and innovation objects edited in place, then used
    # again (a result remembered from the first call would be stale)
    if n >= 1 and isinstance(params, np.ndarray):
        e_obj = e.copy()
        y_first = armodels.armodel_sim(params, e_obj, **kw)
        params[0] = params[0] + 0.125
        e_obj[0] = (0.0 if np.isnan(e_obj[0]) else e_obj[0]) + 1.0
        y_again = armodels.armodel_sim(params, e_obj, **kw)
        y_ref2 = ref_sim(params, e_obj, m, ini)
        c2 = min(cut, n)
        tol_b = 1e-9 * np.maximum.accumulate(np.abs(y_ref2) + abs(m) + 1) \
            + 1e-12 * propagated(np.maximum.accumulate(
                np.abs(y_ref2) + abs(m) + 1), max(1.0, float(
                    np.abs(params).sum())))
        ok = np.abs(y_ref2) < 1e12
        if not np.all(np.abs(y_again - y_ref2)[ok] <= tol_b[ok]):
            raise Violation("armodel_sim called again after its coefficient "
                            "and innovation arrays were edited in place does "
                            "not follow the new values")
        r_again = armodels.armodel_residual(params, y_again.copy(), **kw)
        e0b = np.where(np.isnan(e_obj), 0.0, e_obj)
        if not np.all(np.abs(r_again - e0b)[ok] <= tol_b[ok]):
            raise Violation("armodel_residual after in-place edits is not "
                            "the inverse of armodel_sim")
        params[0] = params[0] - 0.125
        labels.append("second-call-after-in-place-edit")

    # an array returned earlier keeps its values when the functions are
    # called again on other data of the same length
    if n >= 1:
        hold_y = armodels.armodel_sim(phi.copy(), arr(e), **kw)
        hold_r = armodels.armodel_residual(phi.copy(), arr(hold_y), **kw)
        cy, cr = hold_y.copy(), hold_r.copy()
        other = np.where(np.isnan(e), 1.0, e * -2.0 + 1.0)
        armodels.armodel_sim(phi.copy(), other, **kw)
        armodels.armodel_residual(phi.copy(), other, **kw)
        if not (np.array_equal(hold_y, cy, equal_nan=True)
                and np.array_equal(hold_r, cr, equal_nan=True)):
            raise Violation("an array returned by an earlier call was "
                            "overwritten by a later call on other data of "
                            "the same length")

    # rejection
    bad = case["bad"]
    # (whatever the length of the series, 0 included)
    x = np.array([0.1, -0.2, 0.3, 0.7, -1.1])[:case.get("badlen", 3)]
    labels.append(f"rejection-series-length:{len(x)}")
    if bad == "order0":
        a = (np.zeros(0), x, {})
    elif bad == "order11":
        a = (np.full(11, 0.05), x, {})
    elif bad == "order11-trailing-zero":
        # the supported part followed by exactly zero coefficients is still
        # a vector of unsupported length
        a = (np.concatenate([np.resize(phi, 10), [0.]]), x, {})
    elif bad == "order13-trailing-zeros":
        a = (np.concatenate([np.resize(phi, 10), [0., 0., 0.]]), x, {})
    elif bad == "order11-all-zeros":
        a = (np.zeros(11), x, {})
    elif bad == "order12-leading-zeros":
        a = (np.concatenate([[0., 0.], np.resize(phi, 10)]), x, {})
    elif bad == "order25":
        a = (np.full(25, 0.01), x, {})
    elif bad == "nanparam":
        pp = phi.copy()
        pp[-1] = np.nan
        a = (pp, x, {})
    elif bad == "nanmean":
        a = (phi, x, {"sim_mean": np.nan})
    elif bad == "nanmean-explicit-ini":
        a = (phi, x, {"sim_mean": np.nan, "sim_ini": 0.5})
    elif bad == "nanmean-ini-equal-mean-of-data":
        a = (phi, x, {"sim_mean": np.nan, "sim_ini": -1.3})
    else:
        a = (phi, x, {"sim_mean": 0., "sim_ini": np.nan})
    for fn in (armodels.armodel_sim, armodels.armodel_residual):
        try:
            out = fn(a[0], a[1].copy(), **a[2])
        except ValueError:
            continue
        raise Violation(f"{fn.__name__} accepted {bad}: {out}")
    labels.append(f"rejected:{bad}")
    early_nan = any(i < p for i in case["nanpos"])
    if early_nan:
        labels.append("nan-in-first-steps")
    nt = p >= 5 or bool(np.any(phi < 0)) or early_nan
    return {"nt": nt, "labels": labels}


SUBS = [
    Sub("C17.sim-residual-inverse", oracle, strategy=cases, n=(800, 6000),
        shards=(16, 16)),
]
