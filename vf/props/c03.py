"""C03 - CRPS equals its definition and its decomposition is exact."""
import numpy as np
import pandas as pd
from hypothesis import strategies as st

from vf.core import Sub, Violation, Skip

PROPERTY = "C03"
RULE = ("(sizes sub-check: 31..1025 (thorough 4097) members or forecasts, at and "
        "around powers of two and round numbers, with observations outside the ensemble.) " +
        "Hypothesis-generated (observations, ensemble) pairs: n forecasts x m "
        "members from four value regimes (continuous normals, small integer "
        "lattice with heavy ties, observation outside the ensemble for every "
        "forecast, constant ensembles), NaN observations scattered, inputs as "
        "ndarray/list/Series, plus drawn member/forecast permutations, shift "
        "and scale for the metamorphic relations. Oracle: O(n m^2) evaluation "
        "of mean(E|X-y| - 0.5 E|X-X'|), 0.5 mean|y-y'|, the decomposition "
        "identities, sign constraints, table consistency, and for tie-free "
        "data reliability / potential written from Hersbach (2000) Eq. 26-37. "
        "A second sub-check runs long records (n = 46341 .. 92683, n^2 beyond "
        "2^31 / 2^33) against O(n log n) references. Non-trivial = a tie "
        "(member-member or member-observation) or an outlier forecast or "
        "m <= 2; distinct = distinct serialised case.")

from hydrodiy.stat import metrics


def ref_crps(obs, ens):
    n, m = ens.shape
    tot = 0.0
    for i in range(n):
        x = ens[i]
        tot += np.mean(np.abs(x - obs[i])) \
            - 0.5 * np.mean(np.abs(x[:, None] - x[None, :]))
    return tot / n


def ref_unc(obs):
    return 0.5 * np.mean(np.abs(obs[:, None] - obs[None, :]))


def ref_hersbach(obs, ens):
    """Reliability and potential CRPS written from Hersbach (2000), Eq.
    26-27, 30-33, 36-37, for data WITHOUT ties (distinct members, no member
    equal to the observation), where the paper's definitions are
    unambiguous."""
    n, m = ens.shape
    a = np.zeros(m + 1)
    b = np.zeros(m + 1)
    o0 = oN = 0.0
    for i in range(n):
        x = np.sort(ens[i])
        y = obs[i]
        for j in range(1, m):
            lo, hi = x[j - 1], x[j]
            if y >= hi:
                a[j] += hi - lo
            elif y <= lo:
                b[j] += hi - lo
            else:
                a[j] += y - lo
                b[j] += hi - y
        if y < x[0]:
            b[0] += x[0] - y
            o0 += 1
        if y > x[-1]:
            a[m] += y - x[-1]
        if y < x[-1]:
            oN += 1
    a, b, o0, oN = a / n, b / n, o0 / n, oN / n
    reli = pot = 0.0
    for j in range(m + 1):
        p = j / m
        if j == 0:
            if o0 == 0:
                continue
            g, o = b[0] / o0, o0
        elif j == m:
            if oN == 1:
                continue
            g, o = a[m] / (1 - oN), oN
        else:
            g = a[j] + b[j]
            if g <= 0:
                continue
            o = b[j] / g
        if g > 0:
            reli += g * (o - p) ** 2
            pot += g * o * (1 - o)
    return reli, pot


# ------------------------------------------------------------------ generator
@st.composite
def cases(draw, tier):
    big = tier == "thorough"
    nmax, mmax = (60, 40) if big and draw(st.integers(0, 9)) == 0 else (12, 8)
    n = draw(st.integers(1, nmax))
    m = draw(st.integers(1, mmax))
    regime = draw(st.sampled_from(["normal", "lattice", "outlier",
                                   "constant", "lattice", "mixed",
                                   "normal", "constant-obs"]))
    fl = st.floats(-1e3, 1e3, allow_nan=False, width=64)
    lat = st.integers(-3, 3).map(float)
    if regime == "normal":
        ens = draw(st.lists(st.lists(fl, min_size=m, max_size=m),
                            min_size=n, max_size=n))
        obs = draw(st.lists(fl, min_size=n, max_size=n))
    elif regime == "lattice":
        ens = draw(st.lists(st.lists(lat, min_size=m, max_size=m),
                            min_size=n, max_size=n))
        obs = draw(st.lists(lat, min_size=n, max_size=n))
    elif regime == "mixed":
        el = st.one_of(lat, fl)
        ens = draw(st.lists(st.lists(el, min_size=m, max_size=m),
                            min_size=n, max_size=n))
        obs = draw(st.lists(el, min_size=n, max_size=n))
    elif regime == "outlier":
        ens = draw(st.lists(st.lists(lat, min_size=m, max_size=m),
                            min_size=n, max_size=n))
        side = draw(st.sampled_from(["below", "above", "either"]))
        obs = []
        for row in ens:
            d = float(draw(st.integers(0, 3)))
            s = side if side != "either" else draw(
                st.sampled_from(["below", "above"]))
            obs.append(min(row) - d if s == "below" else max(row) + d)
    elif regime == "constant-obs":
        # every observation equal to the same (not exactly representable)
        # value: the climatology has no spread, the uncertainty is 0
        v0 = draw(st.sampled_from([0.1, 1. / 3, 2.7, -0.7, 1e-3, 123.456]))
        obs = [v0] * n
        ens = draw(st.lists(st.lists(st.one_of(fl, st.just(v0)), min_size=m,
                                     max_size=m), min_size=n, max_size=n))
    else:
        vals = draw(st.lists(lat, min_size=n, max_size=n))
        ens = [[v] * m for v in vals]
        obs = draw(st.lists(lat, min_size=n, max_size=n))
    # missing observations (at least one forecast stays valid)
    nanpos = draw(st.lists(st.integers(0, n - 1), max_size=max(0, n // 3),
                           unique=True)) if n > 1 else []
    nanpos = sorted(nanpos)[:n - 1]
    container = draw(st.sampled_from(["ndarray", "ndarray", "list",
                                      "series", "fortran", "strided",
                                      "column-obs", "int", "float32",
                                      "narrow-int"]))
    mperm = [draw(st.permutations(list(range(m)))) for _ in range(n)]
    fperm = draw(st.permutations(list(range(n))))
    shift = draw(st.sampled_from([0.0, 1.0, -7.5, 1e3, 0.1, 2.0**30, 2.0**40,
                                  -2.0**45]))
    scale = draw(st.sampled_from([1.0, 2.0, 0.5, 3.7, 1e-3, 1e3, 2.0**-60,
                                  2.0**-200, 2.0**60, 2.0**-40]))
    return {"obs": obs, "ens": ens, "nanpos": nanpos, "regime": regime,
            "container": container, "mperm": mperm, "fperm": fperm,
            "shift": shift, "scale": scale}


# --------------------------------------------------------------------- oracle
KEYS = ["crps", "reliability", "resolution", "uncertainty", "potential"]


def call(obs, ens, container="ndarray"):
    if container == "list":
        o, e = obs.tolist(), ens.tolist()
    elif container == "series":
        o, e = pd.Series(obs), pd.DataFrame(ens)
    elif container == "fortran":
        o, e = obs.copy(), np.asfortranarray(ens)
    elif container == "strided":
        big = np.zeros((ens.shape[0], 2 * ens.shape[1]))
        big[:, ::2] = ens
        bo = np.zeros(2 * len(obs))
        bo[::2] = obs
        o, e = bo[::2], big[:, ::2]
    elif container == "column-obs":
        o, e = obs.copy()[:, None], ens.copy()
    elif container == "int" and np.all(obs[~np.isnan(obs)] == np.round(
            obs[~np.isnan(obs)])) and not np.isnan(obs).any() \
            and np.all(ens == np.round(ens)):
        o, e = obs.astype(np.int64), ens.astype(np.int32)
    elif container == "narrow-int" and not np.isnan(obs).any() \
            and np.all(obs == np.round(obs)) and np.all(ens == np.round(ens)):
        # counts stored in one byte / 16 bits (signed when there are
        # negative values)
        lo = min(obs.min(), ens.min())
        hi = max(obs.max(), ens.max())
        dts = [np.uint8, np.uint16] if lo >= 0 else [np.int8, np.int16]
        dts = [t for t in dts if np.iinfo(t).min <= lo
               and hi <= np.iinfo(t).max]
        if dts:
            o, e = obs.astype(dts[0]), ens.astype(dts[-1])
        else:
            o, e = obs.copy(), ens.copy()
    elif container == "float32" and np.all(obs == obs.astype(np.float32)) \
            and np.all(ens == ens.astype(np.float32)) \
            and not np.isnan(obs).any():
        o, e = obs.astype(np.float32), ens.astype(np.float32)
    else:
        o, e = obs.copy(), ens.copy()
    d, t = metrics.crps(o, e)
    return d, t


def close(a, b, tol):
    return abs(a - b) <= tol


def oracle(case):
    obs0 = np.array(case["obs"], dtype=np.float64)
    ens0 = np.array(case["ens"], dtype=np.float64)
    n, m = ens0.shape
    obs = obs0.copy()
    for i in case["nanpos"]:
        obs[i] = np.nan
    ok = ~np.isnan(obs)
    if ok.sum() == 0:
        raise Skip()
    vobs, vens = obs[ok], ens0[ok]
    mag = max(1.0, np.abs(vobs).max(), np.abs(vens).max())
    tol = 1e-9 * mag

    d, t = call(obs, ens0, case["container"])
    for k in KEYS:
        if not np.isfinite(d[k]):
            raise Violation(f"{k} is not finite: {d[k]}")
    rc, ru = ref_crps(vobs, vens), ref_unc(vobs)
    if not close(d["crps"], rc, tol):
        raise Violation(f"crps {d['crps']!r} != definition {rc!r}")
    if not close(d["uncertainty"], ru, tol):
        raise Violation(f"uncertainty {d['uncertainty']!r} != "
                        f"0.5 mean|y-y'| {ru!r}")
    if not close(d["crps"], d["reliability"] + d["potential"], tol):
        raise Violation("crps != reliability + potential: "
                        f"{d['crps']!r} {d['reliability']!r} "
                        f"{d['potential']!r}")
    if not close(d["resolution"], d["uncertainty"] - d["potential"], tol):
        raise Violation("resolution != uncertainty - potential")
    for k in ["reliability", "potential", "crps"]:
        if d[k] < -1e-12 * mag:
            raise Violation(f"{k} negative: {d[k]!r}")
    # (a mean of absolute differences: not even rounding can make it
    # negative)
    if d["uncertainty"] < 0:
        raise Violation(f"uncertainty negative: {d['uncertainty']!r}")
    if m == 1:
        mae = np.mean(np.abs(vens[:, 0] - vobs))
        if not close(d["crps"], mae, tol):
            raise Violation(f"single member crps {d['crps']!r} != MAE {mae!r}")
    # uncertainty = CRPS of the climatology forecast
    nv = len(vobs)
    clim = np.repeat(vobs[None, :], nv, axis=0)
    dc, _ = call(vobs, clim)
    if not close(dc["crps"], d["uncertainty"], tol):
        raise Violation(f"uncertainty {d['uncertainty']!r} != crps of "
                        f"climatology {dc['crps']!r}")

    # reliability / potential against the paper's equations (tie-free data)
    notie = all(len(set(r)) == m for r in vens.tolist()) and \
        not np.any(vens == vobs[:, None])
    if notie:
        rr, rp = ref_hersbach(vobs, vens)
        if not close(d["reliability"], rr, tol):
            raise Violation(f"reliability {d['reliability']!r} != Hersbach "
                            f"Eq. 36 {rr!r}")
        if not close(d["potential"], rp, tol):
            raise Violation(f"potential crps {d['potential']!r} != Hersbach "
                            f"Eq. 37 {rp!r}")

    # table
    if t.shape != (m + 1, 7):
        raise Violation(f"table shape {t.shape}")
    freq = t["freq"].values
    if not np.allclose(freq, np.arange(m + 1) / m, atol=1e-15):
        raise Violation(f"table freq {freq}")
    a, b = t["a"].values, t["b"].values
    if (a < 0).any() or (b < 0).any():
        raise Violation("negative a or b in table")
    tc = np.sum(a * freq**2 + b * (1 - freq)**2)
    if not close(tc, d["crps"], tol):
        raise Violation(f"table does not add up to crps: {tc!r}")
    # Hersbach: sum of a+b over inner bins = mean ensemble range
    if m > 1:
        rng_ = np.mean(vens.max(axis=1) - vens.min(axis=1))
        if not close(np.sum(a[1:m] + b[1:m]), rng_, tol):
            raise Violation("inner a+b do not add up to the mean range")

    labels_extra = []
    # metamorphic relations
    def structure(o, e):
        x = np.column_stack([o, e])
        return np.sign(x[:, :, None] - x[:, None, :])

    def same(d2, what, factor=1.0, t2=tol, keys=KEYS):
        for k in keys:
            if not close(d2[k], factor * d[k], t2):
                raise Violation(f"{what} changes {k}: {d[k]!r} -> {d2[k]!r}")

    ens_p = np.array([ens0[i][case["mperm"][i]] for i in range(n)])
    same(call(obs, ens_p)[0], "permuting members")
    fp = np.array(case["fperm"])
    same(call(obs[fp], np.ascontiguousarray(ens0[fp]))[0],
         "permuting forecasts")
    same(call(vobs, vens)[0], "dropping the forecasts with missing obs")
    c, k = case["shift"], case["scale"]
    # Shifting / scaling is done in floating point: when rounding merges or
    # separates values (the tie structure changes) only the quantities that
    # are continuous in the data (crps, uncertainty) are compared; the
    # reliability/potential split is discontinuous at ties.
    cont = ["crps", "uncertainty"]
    s0 = structure(vobs, vens)
    exact = {}
    if c != 0:
        exact["shift"] = bool(np.array_equal(
            s0, structure(vobs + c, vens + c)))
        # a shift that is exact in floating point (whole / half numbers
        # moved by a power of two) leaves every difference between values
        # unchanged bit for bit: the scores must not feel the new level
        lossless = bool(np.array_equal((vobs + c) - c, vobs)
                        and np.array_equal((vens + c) - c, vens))
        same(call(obs + c, ens0 + c)[0], f"adding {c}"
             + (" (exactly)" if lossless else ""),
             t2=1e-9 * mag if lossless else 1e-9 * (mag + abs(c)),
             keys=KEYS if exact["shift"] else cont)
        if lossless and abs(c) > 1e6:
            labels_extra.append("lossless-shift-to-a-high-level")
    if k != 1:
        exact["scale"] = bool(np.array_equal(
            s0, structure(vobs * k, vens * k)))
        same(call(obs * k, ens0 * k)[0], f"scaling by {k}", factor=k,
             t2=1e-9 * mag * k, keys=KEYS if exact["scale"] else cont)

    # whole-number data blown up by a power of two and moved to a level just
    # below the largest float64 (both exact: every difference between two
    # values is the old one times 2^975, far from overflow, while plain sums
    # of the values themselves are not representable)
    if np.array_equal(vobs, np.round(vobs)) and \
            np.array_equal(vens, np.round(vens)) and mag <= 1024:
        K = 2.0 ** 975
        for lev in (2.0 ** 1022, -2.0 ** 1022):
            K_ = K
            o2, e2 = obs * K_ + lev, ens0 * K_ + lev
            if not (np.array_equal((vobs * K_ + lev - lev) / K_, vobs)
                    and np.isfinite(e2).all()):
                continue
            dh = call(o2, e2)[0]
            for k_ in KEYS:
                if not close(dh[k_] / K_, d[k_], tol):
                    raise Violation(
                        f"data times 2^{int(np.log2(K_))} plus {lev!r} "
                        f"(all values finite): {k_} = {dh[k_]!r}, expected "
                        f"2^{int(np.log2(K_))} x {d[k_]!r}")
        labels_extra.append("level-near-the-largest-float")

    # classification
    ties_mm = any(len(set(r)) < m for r in vens.tolist())
    ties_mo = bool(np.any(vens == vobs[:, None]))
    outl = bool(np.any((vobs < vens.min(axis=1)) | (vobs > vens.max(axis=1))))
    labels = [f"regime:{case['regime']}", f"container:{case['container']}"] \
        + labels_extra
    if ties_mm:
        labels.append("tie:member-member")
    if ties_mo:
        labels.append("tie:member-obs")
    if outl:
        labels.append("outlier-forecast")
    if case["nanpos"]:
        labels.append("nan-obs")
    if m <= 2:
        labels.append("m<=2")
    if n == 1:
        labels.append("n=1")
    if notie:
        labels.append("tie-free:hersbach-reference")
    for kk, v in exact.items():
        labels.append(f"{kk}:{'order-preserving' if v else 'rounding-changes-ties'}")
    return {"nt": ties_mm or ties_mo or outl or m <= 2, "labels": labels}


def enum_large(tier):
    """Long records (n*n beyond 2^31 and 2^33): the pairwise uncertainty
    term and the weights 1/n are formed from n."""
    ns = [46341] if tier == "quick" else [46341, 50000, 65537, 92683]
    for n in ns:
        for m in ([2] if tier == "quick" else [1, 3]):
            yield {"n": n, "m": m, "seed": n + m}


def large_oracle(case):
    n, m = case["n"], case["m"]
    rng = np.random.RandomState(case["seed"])
    obs = np.round(rng.normal(size=n) * 4) / 2         # ties included
    ens = obs[:, None] + np.round(rng.normal(size=(n, m)) * 4) / 2
    d, t = metrics.crps(obs.copy(), ens.copy())
    x = ens
    ref = np.mean(np.mean(np.abs(x - obs[:, None]), axis=1)
                  - 0.5 * np.mean(np.abs(x[:, :, None] - x[:, None, :]),
                                  axis=(1, 2)))
    s = np.sort(obs)
    # 0.5 mean|y - y'| = sum_i (2i - n - 1) y_(i) / n^2
    unc = float(np.sum((2.0 * np.arange(1, n + 1) - n - 1) * s)) / n / n
    tol = 1e-9 * max(1.0, np.abs(obs).max())
    if not close(d["crps"], ref, tol):
        raise Violation(f"n={n}: crps {d['crps']!r} != definition {ref!r}")
    # the kernel adds the n(n-1)/2 pair terms one after the other: allow
    # the first-order rounding bound of that summation, N * 2^-53 * sum,
    # twice over (1e-7 relative at n = 92683; an overflowing n*n or a wrong
    # weight is off by orders of magnitude more)
    tol_u = max(tol, n * (n - 1) / 2 * 2.0 ** -52 * abs(unc))
    if not close(d["uncertainty"], unc, tol_u):
        raise Violation(f"n={n}: uncertainty {d['uncertainty']!r} != "
                        f"0.5 mean|y-y'| = {unc!r}")
    if not close(d["crps"], d["reliability"] + d["potential"], tol) or \
            not close(d["resolution"], d["uncertainty"] - d["potential"],
                      tol):
        raise Violation(f"n={n}: decomposition identities broken: "
                        f"{d.to_dict()}")
    for k in ("reliability", "potential", "uncertainty"):
        if d[k] < -tol:
            raise Violation(f"n={n}: {k} negative: {d[k]!r}")
    # the same record 2^40 higher (an exact shift for half-integer data):
    # the scores do not feel the level
    c = 2.0 ** 40
    if n <= 50000 and np.array_equal((obs + c) - c, obs) \
            and np.array_equal((ens + c) - c, ens):
        d2, _ = metrics.crps(obs + c, ens + c)
        for k in ("crps", "uncertainty", "reliability", "potential"):
            tk = tol_u if k == "uncertainty" else tol
            if not close(d2[k], d[k], tk):
                raise Violation(f"n={n}: adding 2^40 to observations and "
                                f"members changes {k}: {d[k]!r} -> "
                                f"{d2[k]!r}")
    return {"nt": True, "labels": [f"n:{n}"]}


def enum_wide(tier):
    """Ensemble and record sizes at and around powers of two (internal
    buffers, unrolled loops): 1..6 forecasts of m members, and m forecasts
    of 3 members."""
    ms = [31, 32, 33, 63, 64, 65, 99, 100, 101, 127, 128, 129, 255, 256, 257,
          499, 500, 501, 511, 512, 513, 999, 1000, 1001, 1023, 1024, 1025]
    if tier == "thorough":
        ms += [100, 200, 1000, 2047, 2048, 2049, 4096, 4097]
    for m in ms:
        for k in range(2):
            yield {"m": m, "k": k, "shape": "wide"}
        yield {"m": m, "k": 0, "shape": "long"}


def wide_oracle(case):
    m, k = case["m"], case["k"]
    rng = np.random.RandomState(1000 * k + m)
    if case["shape"] == "wide":
        n = 3 + k * 3
        ens = rng.normal(size=(n, m)) * 2
        if k:
            ens = np.round(ens * 2) / 2               # ties
        obs = rng.normal(size=n) * 2
        # observations below, above and inside the ensemble range
        obs[0] = ens[0].min() - 1.25
        obs[1] = ens[1].max() + 0.75
    else:
        n = m
        ens = rng.normal(size=(n, 3))
        obs = rng.normal(size=n)
        obs[n // 2] = ens[n // 2].min() - 0.5
    d, t = metrics.crps(obs.copy(), ens.copy())
    tol = 1e-9 * max(1.0, np.abs(obs).max(), np.abs(ens).max())
    rc, ru = ref_crps(obs, ens), ref_unc(obs)
    if not close(d["crps"], rc, tol):
        raise Violation(f"{n} forecasts x {m if case['shape'] == 'wide' else 3}"
                        f" members: crps {d['crps']!r} != definition {rc!r}")
    if not close(d["uncertainty"], ru, tol):
        raise Violation(f"{n} forecasts: uncertainty {d['uncertainty']!r} != "
                        f"0.5 mean|y-y'| {ru!r}")
    if not close(d["crps"], d["reliability"] + d["potential"], tol) or \
            not close(d["resolution"], d["uncertainty"] - d["potential"],
                      tol):
        raise Violation(f"{n} x {ens.shape[1]}: decomposition identities "
                        f"broken: {d.to_dict()}")
    if not (case["shape"] == "wide" and k):
        reli, pot = ref_hersbach(obs, ens)
        if not close(d["reliability"], reli, tol) or \
                not close(d["potential"], pot, tol):
            raise Violation(
                f"{n} x {ens.shape[1]}: reliability/potential "
                f"{d['reliability']!r}/{d['potential']!r} != Hersbach "
                f"reference {reli!r}/{pot!r}")
    if len(t) != ens.shape[1] + 1:
        raise Violation(f"decomposition table has {len(t)} rows for "
                        f"{ens.shape[1]} members")
    return {"nt": True, "labels": [f"{case['shape']}:{m}"]}


SUBS = [
    Sub("C03.sizes-around-powers-of-two", wide_oracle, enumerate=enum_wide,
        shards=(16, 16)),
    Sub("C03.long-records", large_oracle, enumerate=enum_large,
        shards=(1, 8)),
    Sub("C03.definition+decomposition+metamorphic", oracle, strategy=cases,
        n=(750, 12000), shards=(4, 16)),
]
