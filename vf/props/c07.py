"""C07 - cell numbers, rows/columns and coordinates are mutually consistent."""
import math

import numpy as np
from hypothesis import strategies as st

from vf.core import Sub, Violation, Skip
from hydrodiy.gis.grid import Grid

PROPERTY = "C07"
# (large-grids sub-check: landmark cells of grids of up to 2^32+ cells)
RULE = ("Hypothesis-generated geometries: nrows, ncols in 1..40 (weight on 1 "
        "and 2), cell size m*2^e (e in -13..13) or non-dyadic (0.05, 1/3, "
        "0.1*10^k), origins up to 1e4 cell sizes from zero with any sign; "
        "every valid cell of small grids / sampled cells of larger ones, vectors "
        "mixing valid and invalid cell numbers in any order, "
        "invalid cell numbers, points inside footprints at centre + "
        "(u, v)*cellsize with |u|,|v| <= 0.5-1e-9, points outside the extent "
        "on the 8 sides/diagonals at {1e-9,1e-3,.5,.999,1,7.3,1e6} cell sizes, "
        "NaN/inf coordinates. Oracle: divmod numbering, centre formula to 4 "
        "ulp, coord2cell o cell2coord = id, inside -> c, outside -> -1, "
        "xvalues/yvalues, neighbour offsets/mirror symmetry, invalid cells "
        "flagged. Plus an exhaustive enumeration of all cells and all "
        "half-cell lattice points of every grid up to 6x6 (unit and 0.25 "
        "cell size), and landmark cells (corners, around 2^31 and 2^32, a "
        "spread) of int8 grids of 1.2e7 .. 4.9e9 cells. Non-trivial = a point outside on the left/bottom side "
        "within one cell of the extent, or a single row/column grid, or "
        "|origin|/cellsize > 100.")

unit = st.floats(0., 1., allow_nan=False)
sunit = st.floats(-1., 1., allow_nan=False)
DIST = [1e-9, 1e-3, 0.5, 0.999, 1.0, 7.3, 1e6]
SIDES = [(-1, 0), (1, 0), (0, -1), (0, 1), (-1, -1), (-1, 1), (1, -1), (1, 1)]


@st.composite
def geometry(draw):
    dims = st.one_of(st.sampled_from([1, 1, 2]), st.integers(1, 40))
    nrows, ncols = draw(dims), draw(dims)
    if draw(st.booleans()):
        csz = draw(st.integers(1, 15)) * 2.0 ** draw(st.integers(-13, 13))
    else:
        csz = draw(st.sampled_from([0.05, 1. / 3, 0.1, 1e-3, 250., 1e4,
                                    0.008333333333333333, 30.87]))
    ox = draw(st.sampled_from([0., 0., None, None, 1e4, -1e4]))
    oy = draw(st.sampled_from([0., 0., None, None, 1e4, -1e4]))
    if ox is None:
        ox = draw(sunit) * 10.0 ** draw(st.integers(0, 4))
    if oy is None:
        oy = draw(sunit) * 10.0 ** draw(st.integers(0, 4))
    if draw(st.integers(0, 5)) == 0:
        # grids spanning the globe (360 wide and / or 180 high, in degrees)
        # or exactly one unit: the extent is a round number
        ncols, csz = draw(st.sampled_from([(360, 1.), (720, .5), (36, 10.),
                                           (12, 30.), (1, 360.), (144, 2.5),
                                           (1440, .25), (4, 0.25), (3, 120.)]))
        nrows = draw(st.sampled_from([1, 2, 3, int(round(180 / csz)) or 1]))
        nrows = min(nrows, 720)
        return {"nrows": nrows, "ncols": ncols, "csz": csz,
                "xll": draw(st.sampled_from([-180., 0., -179.5, 100.])),
                "yll": draw(st.sampled_from([-90., 0., -60.]))}
    return {"nrows": nrows, "ncols": ncols, "csz": csz,
            "xll": ox * csz, "yll": oy * csz}


@st.composite
def cases(draw, tier):
    g = draw(geometry())
    n = g["nrows"] * g["ncols"]
    if n <= 30:
        cells = list(range(n))
    else:
        cells = sorted(set([0, n - 1, g["ncols"] - 1, n - g["ncols"]]
                           + draw(st.lists(st.integers(0, n - 1),
                                           min_size=5, max_size=25))))
    g["cells"] = cells
    g["inside"] = [[draw(st.sampled_from(cells)),
                    draw(st.sampled_from([None, 0.5 - 1e-9, -(0.5 - 1e-9),
                                          0.])),
                    draw(st.sampled_from([None, 0.5 - 1e-9, -(0.5 - 1e-9),
                                          0.]))]
                   for _ in range(draw(st.integers(4, 20)))]
    for p in g["inside"]:
        for k in (1, 2):
            if p[k] is None:
                p[k] = draw(sunit) * (0.5 - 1e-9)
    g["mixed"] = draw(st.lists(st.one_of(
        st.integers(-3, n + 2), st.sampled_from([-1, 0, 1, n - 1, n])),
        max_size=12))
    if draw(st.booleans()):
        g["regeo"] = [draw(st.sampled_from([100., -3.5, 0., 1e4])),
                      draw(st.sampled_from([0., 17.25, -250.])),
                      draw(st.sampled_from([1., 2., 0.5, 3.]))]
    g["outside"] = [[draw(st.integers(0, 7)), draw(st.sampled_from(DIST)),
                     draw(st.sampled_from(DIST)), draw(unit)]
                    for _ in range(draw(st.integers(4, 24)))]
    return g


def make_grid(case):
    return Grid("g", case["ncols"], case["nrows"], cellsize=case["csz"],
                xllcorner=case["xll"], yllcorner=case["yll"],
                dtype=np.dtype(case.get("dtype", "float64")).type)


def check_cells(g, case, cells):
    nr, nc, csz = case["nrows"], case["ncols"], case["csz"]
    xll, yll = case["xll"], case["yll"]
    n = nr * nc
    cells = np.array(cells, dtype=np.int64)
    rc = g.cell2rowcol(cells)
    exp = np.array([divmod(int(c), nc) for c in cells])
    if not np.array_equal(rc, exp):
        raise Violation(f"cell2rowcol {rc.tolist()[:5]} != divmod "
                        f"{exp.tolist()[:5]} (ncols={nc})")
    xy = g.cell2coord(cells)
    ex = xll + (exp[:, 1] + 0.5) * csz
    ey = yll + (nr - 1 - exp[:, 0] + 0.5) * csz
    mag = max(abs(xll), abs(yll)) + max(nr, nc) * csz
    tol = 4 * np.spacing(mag)
    if not (np.all(np.abs(xy[:, 0] - ex) <= tol)
            and np.all(np.abs(xy[:, 1] - ey) <= tol)):
        raise Violation(f"cell2coord differs from the cell centre: "
                        f"{xy[:3].tolist()} vs {ex[:3].tolist()}, "
                        f"{ey[:3].tolist()} geometry {case_geom(case)}")
    # the same cell numbers stored in narrower / unsigned integer types
    for dt in (np.int32, np.uint8, np.int16, np.uint16, np.uint32, np.uint64,
               np.int8):
        if len(cells) and cells.min() >= np.iinfo(dt).min and \
                cells.max() <= np.iinfo(dt).max:
            cd = cells.astype(dt)
            if not (np.array_equal(g.cell2rowcol(cd), rc)
                    and np.array_equal(g.cell2coord(cd), xy)):
                raise Violation(
                    f"cell numbers given as {np.dtype(dt).name} "
                    f"{cd.tolist()[:6]}: cell2rowcol / cell2coord differ from "
                    f"the int64 call; geometry {case_geom(case)}")
    # one cell / one point at a time, scalars and plain lists
    c0 = int(cells[len(cells) // 2])
    one = g.cell2coord(c0)
    if one.shape != (1, 2) or not np.array_equal(
            one[0], xy[len(cells) // 2]):
        raise Violation(f"cell2coord({c0}) (scalar) = {one.tolist()} "
                        "differs from the vector call")
    if g.coord2cell(one[0].tolist())[0] != c0 or \
            g.coord2cell([one[0].tolist()])[0] != c0 or \
            g.cell2rowcol(c0).tolist() != [list(divmod(c0, nc))] or \
            g.cell2rowcol([c0]).tolist() != [list(divmod(c0, nc))]:
        raise Violation(f"scalar / list forms disagree for cell {c0}; "
                        f"geometry {case_geom(case)}")
    back = g.coord2cell(xy)
    if not np.array_equal(back, cells):
        i = int(np.argmax(back != cells))
        raise Violation(f"coord2cell(cell2coord({cells[i]})) = {back[i]} "
                        f"geometry {case_geom(case)}")
    return xy


def case_geom(case):
    return {k: case[k] for k in ("nrows", "ncols", "csz", "xll", "yll")}


def check_neighbours(g, case, cells):
    nr, nc = case["nrows"], case["ncols"]
    for c in cells:
        nb = g.neighbours(c)
        if len(nb) != 9:
            raise Violation(f"neighbours returns {len(nb)} entries")
        r, k = divmod(int(c), nc)
        for j in range(9):
            dr, dc = j // 3 - 1, j % 3 - 1
            r2, k2 = r + dr, k + dc
            if j == 4 or not (0 <= r2 < nr and 0 <= k2 < nc):
                e = -1
            else:
                e = r2 * nc + k2
            if nb[j] != e:
                raise Violation(f"neighbours({c})[{j}] = {nb[j]}, expected "
                                f"{e} on a {nr}x{nc} grid")
            if e >= 0:
                back = g.neighbours(e)
                if back[8 - j] != c:
                    raise Violation(f"neighbour relation not symmetric: "
                                    f"{c} -> {e} at {j}, {e} -> "
                                    f"{back[8 - j]} at {8 - j}")


def check_invalid(g, case):
    n = case["nrows"] * case["ncols"]
    bad = np.array([-5, -1, n, n + 1, 2**40], dtype=np.int64)
    rc = g.cell2rowcol(bad)
    if not np.all(rc == -1):
        raise Violation(f"cell2rowcol of invalid cells {rc.tolist()}")
    xy = g.cell2coord(bad)
    if not np.all(np.isnan(xy)):
        raise Violation(f"cell2coord of invalid cells {xy.tolist()}")
    for b in bad:
        try:
            nb = g.neighbours(b)
        except ValueError:
            continue
        raise Violation(f"neighbours({b}) returned {nb} instead of an error")
    # mix of valid and invalid
    mixed = np.array([0, -1, n - 1, n], dtype=np.int64)
    rc = g.cell2rowcol(mixed)
    if rc[1].tolist() != [-1, -1] or rc[3].tolist() != [-1, -1] \
            or rc[0].tolist() != [0, 0]:
        raise Violation(f"cell2rowcol mixed {rc.tolist()}")
    for v in ([np.nan, 0.], [0., np.nan], [np.inf, 0.], [0., -np.inf],
              [np.nan, np.nan], [1e300, 1e300], [-1e300, 0.]):
        xy = np.array([v]) + np.array([[case["xll"], case["yll"]]])
        c = g.coord2cell(xy)
        if c[0] != -1:
            raise Violation(f"coord2cell({v}) = {c[0]}, expected -1")


def check_mixed(g, case, cells):
    """One call on a vector mixing valid and invalid cell numbers in any
    order: every element is judged on its own."""
    nr, nc, csz = case["nrows"], case["ncols"], case["csz"]
    xll, yll = case["xll"], case["yll"]
    n = nr * nc
    cells = np.array(cells, dtype=np.int64)
    if len(cells) == 0:
        return
    xy = g.cell2coord(cells)
    rc = g.cell2rowcol(cells)
    mag = max(abs(xll), abs(yll)) + max(nr, nc) * csz
    tol = 4 * np.spacing(mag)
    for i, c in enumerate(cells):
        c = int(c)
        if 0 <= c < n:
            r, k = divmod(c, nc)
            ex = xll + (k + 0.5) * csz
            ey = yll + (nr - 1 - r + 0.5) * csz
            if not (abs(xy[i, 0] - ex) <= tol and abs(xy[i, 1] - ey) <= tol):
                raise Violation(
                    f"cell2coord({cells.tolist()})[{i}] = {xy[i].tolist()}, "
                    f"centre of cell {c} is ({ex}, {ey}); geometry "
                    f"{case_geom(case)}")
            if rc[i].tolist() != [r, k]:
                raise Violation(f"cell2rowcol({cells.tolist()})[{i}] = "
                                f"{rc[i].tolist()}, expected {[r, k]}")
        else:
            if not np.all(np.isnan(xy[i])) or rc[i].tolist() != [-1, -1]:
                raise Violation(
                    f"invalid cell {c} in {cells.tolist()} is mapped to "
                    f"{xy[i].tolist()} / {rc[i].tolist()}")


def check_full_length(g, case):
    """Vectors with exactly as many entries as the grid has cells (and one
    more / one fewer) whose ends look like np.arange(ncells) but whose inner
    part is in another order, repeated or invalid."""
    n = case["nrows"] * case["ncols"]
    if n < 3 or n > 4096:
        return
    base = list(range(n))
    inner = base[1:-1]
    vs = [[0] + inner[::-1] + [n - 1],
          [0] + inner[1:] + inner[:1] + [n - 1],
          [0] + [n] * len(inner) + [n - 1],
          [0] + [-1 if i % 2 else c for i, c in enumerate(inner)] + [n - 1],
          [0] + [inner[0]] * len(inner) + [n - 1],
          base[::-1], [0] + base[:-2] + [n - 1],
          [0] + inner[::-1] + [n - 1, n - 1], [0, 0] + inner[::-1] + [n - 1],
          [0] + inner[::-1][:-1] + [n - 1]]
    for v in vs:
        check_mixed(g, case, v)


def oracle(case):
    g = make_grid(case)
    nr, nc, csz = case["nrows"], case["ncols"], case["csz"]
    xll, yll = case["xll"], case["yll"]
    n = nr * nc
    labels = []
    check_cells(g, case, case["cells"])
    check_neighbours(g, case, case["cells"][:12])
    check_invalid(g, case)
    check_mixed(g, case, case.get("mixed", []))
    check_full_length(g, case)
    if nr * nc <= 60:
        check_mixed(g, case, list(range(-3, nr * nc + 3)))
        check_mixed(g, case, list(range(nr * nc + 2, -4, -1)))
    # xvalues / yvalues
    xv, yv = g.xvalues, g.yvalues
    first_row = g.cell2coord(np.arange(nc))[:, 0]
    first_col = g.cell2coord(np.arange(0, n, nc))[:, 1]
    if not (np.array_equal(xv, first_row) and np.array_equal(yv, first_col)
            and len(xv) == nc and len(yv) == nr):
        raise Violation("xvalues/yvalues differ from the centres of the "
                        "first row / first column")
    if nc > 1 and not np.all(np.diff(xv) > 0):
        raise Violation("xvalues not increasing")
    if nr > 1 and not np.all(np.diff(yv) < 0):
        raise Violation("yvalues not decreasing (rows run from the top)")

    # a grid obtained by clipping (whole grid, bottom rows, top rows, a
    # block) is a grid like any other: same consistency between its cell
    # numbers, coordinates and xvalues / yvalues
    k_ = (case["cells"][len(case["cells"]) // 2] if case["cells"] else 0)
    ra, ca_ = divmod(k_ % n, nc)
    for (r0, r1, c0, c1) in {(0, nr - 1, 0, nc - 1), (ra, nr - 1, 0, ca_),
                             (0, ra, ca_, nc - 1), (ra, ra, ca_, ca_)}:
        ctr = g.cell2coord(np.array([r1 * nc + c0, r0 * nc + c1]))
        gc = g.clip(ctr[0, 0], ctr[0, 1], ctr[1, 0], ctr[1, 1])
        if (gc.nrows, gc.ncols) != (r1 - r0 + 1, c1 - c0 + 1):
            continue        # (corner moved by rounding: C13 judges clips)
        n2 = gc.nrows * gc.ncols
        xv2, yv2 = gc.xvalues, gc.yvalues
        cc = gc.cell2coord(np.arange(n2))
        if len(xv2) != gc.ncols or len(yv2) != gc.nrows or \
                not np.array_equal(xv2, cc[:gc.ncols, 0]) or \
                not np.array_equal(yv2, cc[::gc.ncols, 1]):
            raise Violation(
                f"clipped grid (rows {r0}..{r1}, cols {c0}..{c1} of a "
                f"{nr}x{nc} grid): xvalues / yvalues have {len(xv2)} / "
                f"{len(yv2)} values for {gc.ncols} columns / {gc.nrows} "
                f"rows or differ from its cell centres")
        back = gc.coord2cell(cc)
        if not np.array_equal(back, np.arange(n2)):
            raise Violation("clipped grid: coord2cell(cell2coord(c)) != c")
        # centres coincide with the parent's
        pc = g.coord2cell(cc)
        exp_pc = ((r0 + np.arange(n2) // gc.ncols) * nc + c0
                  + np.arange(n2) % gc.ncols)
        if not np.array_equal(pc, exp_pc):
            raise Violation("clipped grid: its cell centres do not fall in "
                            "the parent cells it was cut from")
    labels.append("clipped-grids")

    # inside points
    pts, expc = [], []
    for c, u, v in case["inside"]:
        r, k = divmod(c, nc)
        pts.append([xll + (k + 0.5 + u) * csz,
                    yll + (nr - 1 - r + 0.5 + v) * csz])
        expc.append(c)
    got = g.coord2cell(np.array(pts))
    if not np.array_equal(got, expc):
        i = int(np.argmax(got != np.array(expc)))
        raise Violation(f"point {pts[i]} inside the footprint of cell "
                        f"{expc[i]} (u,v={case['inside'][i][1:]}) -> "
                        f"{got[i]}; geometry {case_geom(case)}")

    # outside points
    nt = nr == 1 or nc == 1 or max(abs(xll), abs(yll)) / csz > 100
    pts = []
    for side, d1, d2, t in case["outside"]:
        sx, sy = SIDES[side]
        if sx < 0:
            x = xll - d1 * csz
        elif sx > 0:
            x = xll + (nc + d1) * csz
        else:
            x = xll + t * nc * csz
        if sy < 0:
            y = yll - d2 * csz
        elif sy > 0:
            y = yll + (nr + d2) * csz
        else:
            y = yll + t * nr * csz
        # make sure rounding has not moved the point onto / inside the edge
        if sx < 0 and not x < xll:
            continue
        if sy < 0 and not y < yll:
            continue
        if sx > 0 and not (x - xll) / csz >= nc:
            continue
        if sy > 0 and not (y - yll) / csz >= nr:
            continue
        if (sx < 0 and d1 <= 1) or (sy < 0 and d2 <= 1):
            nt = True
            labels.append("outside:left/bottom-within-one-cell")
        pts.append([x, y])
    if pts:
        # one call mixing inside points, outside points and a NaN point
        ins = [[xll + (divmod(c, nc)[1] + 0.5 + u) * csz,
                yll + (nr - 1 - divmod(c, nc)[0] + 0.5 + v) * csz]
               for c, u, v in case["inside"]]
        mix, expm = [], []
        for i in range(max(len(ins), len(pts))):
            if i < len(pts):
                mix.append(pts[i])
                expm.append(-1)
            if i < len(ins):
                mix.append(ins[i])
                expm.append(case["inside"][i][0])
            if i == 1:
                mix.append([float("nan"), yll])
                expm.append(-1)
        gotm = g.coord2cell(np.array(mix))
        if not np.array_equal(gotm, expm):
            k = int(np.argmax(gotm != np.array(expm)))
            raise Violation(
                f"coord2cell on a vector mixing inside and outside points: "
                f"element {k} {mix[k]} -> {gotm[k]}, expected {expm[k]}; "
                f"geometry {case_geom(case)}")
        # each point on its own, given as a plain (x, y) pair (list, tuple,
        # 1-D array) - the way a single outlet is usually passed
        for pt_, e_ in list(zip(mix, expm))[:12]:
            for form in (list(pt_), tuple(pt_), np.array(pt_)):
                one_ = g.coord2cell(form)
                if len(one_) != 1 or one_[0] != e_:
                    raise Violation(
                        f"coord2cell of the single point {pt_} given as a "
                        f"{type(form).__name__} -> {one_}, the same point "
                        f"in a vector -> {e_}; geometry {case_geom(case)}")
        got = g.coord2cell(np.array(pts))
        if not np.all(got == -1):
            i = int(np.argmax(got != -1))
            raise Violation(f"point {pts[i]} outside the extent -> cell "
                            f"{got[i]} instead of -1; geometry "
                            f"{case_geom(case)}")
    if nr == 1 or nc == 1:
        labels.append("single-row-or-column")
    if max(abs(xll), abs(yll)) / csz > 100:
        labels.append("large-origin")
    # points exactly on cell edges and on the extent border (and their
    # floating-point neighbours): either side is acceptable, but the answer
    # must be -1 or a valid cell whose closed footprint holds the point
    ii = sorted({0, 1, nc // 2, nc - 1, nc})
    jj = sorted({0, 1, nr // 2, nr - 1, nr})
    epts = []
    for i in ii:
        for j in jj:
            x0, y0 = xll + i * csz, yll + j * csz
            for x in (x0, np.nextafter(x0, -np.inf), np.nextafter(x0, np.inf)):
                for y in (y0, np.nextafter(y0, -np.inf),
                          np.nextafter(y0, np.inf), yll + (j + 0.5) * csz):
                    epts.append([x, y])
    epts = np.array(epts)
    ec = g.coord2cell(epts)
    for (x, y), c in zip(epts, ec):
        if c == -1:
            u, v = (x - xll) / csz, (y - yll) / csz
            if 1e-9 < u < nc - 1e-9 and 1e-9 < v < nr - 1e-9:
                raise Violation(f"edge point ({x!r}, {y!r}) inside the "
                                f"extent -> -1; geometry {case_geom(case)}")
            continue
        if not 0 <= c < n:
            raise Violation(f"coord2cell(({x!r}, {y!r})) = {c}: neither -1 "
                            f"nor a valid cell number (0..{n - 1}); geometry "
                            f"{case_geom(case)}")
        r, k = divmod(int(c), nc)
        u, v = (x - xll) / csz, (y - yll) / csz
        if not (k - 1e-9 <= u <= k + 1 + 1e-9
                and nr - 1 - r - 1e-9 <= v <= nr - r + 1e-9):
            raise Violation(f"edge point ({x!r}, {y!r}) -> cell {c} whose "
                            f"footprint does not hold it; geometry "
                            f"{case_geom(case)}")
    # the georeferencing attributes are public and assignable: a grid that
    # has been used, and a clone of it, follow their new geometry
    if "regeo" in case:
        for target in (g, g.clone()):
            target.xllcorner = np.float64(case["regeo"][0] * csz)
            target.yllcorner = np.float64(case["regeo"][1] * csz)
            target.cellsize = np.float64(case["regeo"][2] * csz)
            case2 = dict(case, xll=case["regeo"][0] * csz,
                         yll=case["regeo"][1] * csz,
                         csz=case["regeo"][2] * csz)
            check_cells(target, case2, case["cells"])
            check_mixed(target, case2, case.get("mixed", []))
        labels.append("geometry-reassigned")
    return {"nt": nt, "labels": sorted(set(labels))}


# ----------------------------------------------------- exhaustive small grids
def enum_cases(tier):
    maxdim = 6 if tier == "quick" else 10
    for nr in range(1, maxdim + 1):
        for nc in range(1, maxdim + 1):
            for csz, xll, yll in [(1.0, 0.0, 0.0), (0.25, -3.0, 7.5),
                                  (1. / 3, 10. / 3, -20. / 3)]:
                yield {"nrows": nr, "ncols": nc, "csz": csz,
                       "xll": xll, "yll": yll}


def enum_oracle(case):
    """All cells, all neighbours and every point of the quarter-cell lattice
    from two cells outside the extent on every side."""
    g = make_grid(case)
    nr, nc, csz = case["nrows"], case["ncols"], case["csz"]
    xll, yll = case["xll"], case["yll"]
    n = nr * nc
    check_cells(g, case, list(range(n)))
    check_neighbours(g, case, list(range(n)))
    check_invalid(g, case)
    check_mixed(g, case, list(range(-3, n + 3)))
    check_mixed(g, case, [n - 1, -1, 0, 1, n, 0, -1, 1])
    check_full_length(g, case)
    pts, exp = [], []
    for i in range(-8, 4 * nc + 9):
        for j in range(-8, 4 * nr + 9):
            if i % 4 == 0 or j % 4 == 0:
                continue        # on a cell edge: either side is acceptable
            pts.append([xll + i * csz / 4, yll + j * csz / 4])
            col, rowb = i // 4, j // 4
            if 0 <= col < nc and 0 <= rowb < nr:
                exp.append((nr - 1 - rowb) * nc + col)
            else:
                exp.append(-1)
    got = g.coord2cell(np.array(pts))
    if not np.array_equal(got, exp):
        k = int(np.argmax(got != np.array(exp)))
        raise Violation(f"lattice point {pts[k]} -> {got[k]}, expected "
                        f"{exp[k]}; geometry {case_geom(case)}")
    return {"nt": True, "labels": [f"csz:{csz:.3g}"]}


# ------------------------------------------------------------- large grids
LARGE_SHAPES = [
    # nrows, ncols, thorough only; data are int8 and never touched (the
    # pages are only reserved)
    (3000, 4000, False), (1, 20_000_000, False), (20_000_000, 1, False),
    (43_000, 50_000, False), (50_000, 43_000, False),
    (46_341, 46_341, False), (65_536, 32_768, False),
    (40, 60_000_000, True), (60_000_000, 40, True), (70_000, 70_000, True),
    (65_536, 65_537, True),
]


def large_enum(tier):
    for nr, nc, tho in LARGE_SHAPES:
        if tho and tier != "thorough":
            continue
        for csz, xll, yll in [(0.001, 112.0, -44.0), (25., 0., 0.)]:
            yield {"nrows": nr, "ncols": nc, "csz": csz, "xll": xll,
                   "yll": yll, "dtype": "int8"}


def large_oracle(case):
    """Landmark cells of grids with up to more than 2^32 cells: corners,
    cells around 2^31 and 2^32, a spread of others."""
    g = make_grid(case)
    nr, nc = case["nrows"], case["ncols"]
    n = nr * nc
    marks = [0, 1, nc - 1, nc, n - nc, n - 1, n // 2, n // 3, n // 7,
             2**31 - 1, 2**31, 2**31 + 1, 2**31 + nc, 2**32 - 1, 2**32,
             2**32 + 1, 2**32 + nc]
    marks += [(n // 97) * k for k in range(1, 97, 5)]
    cells = sorted({c for c in marks if 0 <= c < n})
    check_cells(g, case, cells)
    check_neighbours(g, case, cells)
    check_invalid(g, case)
    check_mixed(g, case, [cells[-1], -1, cells[0], n, cells[len(cells) // 2],
                          n + 2**31, -2**31, 2**62])
    # one call on several hundred thousand points (every cell of a
    # 500x600 block, then points outside the extent)
    if n >= 300_000:
        blk = (np.arange(500, dtype=np.int64)[:, None] * nc
               + np.arange(600, dtype=np.int64)[None, :]).ravel() \
            if nc >= 600 and nr >= 500 else np.arange(300_000,
                                                      dtype=np.int64)
        xyb = g.cell2coord(blk)
        backb = g.coord2cell(xyb)
        if not np.array_equal(backb, blk):
            i = int(np.argmax(backb != blk))
            raise Violation(
                f"coord2cell(cell2coord(c)) on {len(blk)} cells in one call:"
                f" cell {blk[i]} (position {i}) -> {backb[i]}")
        rcb = g.cell2rowcol(blk)
        if not np.array_equal(rcb[:, 0] * nc + rcb[:, 1], blk):
            raise Violation(f"cell2rowcol on {len(blk)} cells in one call "
                            "disagrees with the numbering")
        out = xyb.copy()
        out[:, 0] = case["xll"] - (1 + np.arange(len(blk)) % 7) * case["csz"]
        oc = g.coord2cell(out)
        if not np.all(oc == -1):
            i = int(np.argmax(oc != -1))
            raise Violation(f"{len(blk)} points left of the extent in one "
                            f"call: position {i} -> cell {oc[i]}")
    yv, xv = g.yvalues, g.xvalues
    if len(yv) != nr or len(xv) != nc:
        raise Violation(f"xvalues/yvalues lengths {len(xv)}, {len(yv)}")
    csz, xll, yll = case["csz"], case["xll"], case["yll"]
    tol = 4 * np.spacing(max(abs(xll), abs(yll)) + max(nr, nc) * csz)
    if abs(yv[0] - (yll + (nr - 0.5) * csz)) > tol or \
            abs(yv[-1] - (yll + 0.5 * csz)) > tol or \
            abs(xv[0] - (xll + 0.5 * csz)) > tol or \
            abs(xv[-1] - (xll + (nc - 0.5) * csz)) > tol:
        raise Violation("xvalues/yvalues do not span the cell centres")
    labels = ["cells:>2^31" if n > 2**31 else "cells:<=2^31"]
    if n > 2**32:
        labels.append("cells:>2^32")
    return {"nt": n > 10**6, "labels": labels}


SUBS = [
    Sub("C07.large-grids", large_oracle, enumerate=large_enum,
        shards=(7, 11)),
    Sub("C07.generated-geometries", oracle, strategy=cases,
        n=(500, 12000), shards=(8, 16)),
    Sub("C07.exhaustive-small-grids", enum_oracle, enumerate=enum_cases,
        shards=(4, 16)),
]
