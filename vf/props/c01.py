"""C01 - every data transform is invertible on its domain."""
import numpy as np
from hypothesis import strategies as st

from vf.core import Sub, Violation, Skip
from vf.props import tr_common as tc
from hydrodiy.stat import transform as T

PROPERTY = "C01"
RULE = ("One sub-check per transform class (13). Hypothesis draws constructor "
        "options (mininu, minilam, base), two successive parameter/constant "
        "settings for the same instance (40 % weight on branch values: "
        "lam = 0, +-1e-11, +-1.0001e-10, +-2e-10, 2+-1e-9.., bounds) and "
        "normalised coordinates that are mapped to domain points in the "
        "transformed variable so that the conditioning region of the "
        "property holds by construction. Oracle: |backward(forward(x)) - x| "
        "<= 1e-6 * s_x and |forward(backward(y)) - y| <= 1e-6 * (1+|y|), "
        "finite results, type/shape preserved, backward_censored = max(x, c); "
        "between forward and backward other instances of the same and of "
        "related classes are created, configured differently and used "
        "(object independence). "
        "Non-trivial = parameters differ from the defaults and some point is "
        "away from the fixed point of the map; distinct = distinct case.")

TOL = 1e-6
NO_SCALAR = ("YeoJohnson", "Softmax")


def roundtrip(t, case, setting, labels, backward_first=False):
    cls = case["cls"]
    pts = tc.points(t, case, setting, abs_guard=False)
    x = pts["x"]
    sx = pts["sx"]
    labels.extend(pts["lab"])
    if backward_first:
        # the instance has just received new parameters: its first call is
        # backward, on values computed by a fresh instance (one-parameter
        # variants must re-synchronise their inner BoxCox2 in every method)
        fresh = tc.make({"cls": cls, "ctor": case["ctor"], "via": "class",
                         "settings": [setting]})
        yref = fresh.forward(x.copy())
        xb = t.backward(yref.copy())
        err = np.abs(xb - x) / sx
        if not np.all(err <= TOL):
            i = np.nanargmax(np.where(np.isnan(err), np.inf, err))
            raise Violation(
                f"backward called first after a parameter change: "
                f"x={x.flat[i]!r} y={yref.flat[i]!r} back={xb.flat[i]!r} "
                f"params={dict(zip(t.params.names, t.params.values))} "
                f"constants={dict(zip(t.constants.names, t.constants.values))}")
    y = t.forward(x.copy())
    # other transform objects are created, configured and used while this
    # one is in use (they stay alive until the end of the case)
    before = {str(n): float(t[str(n)]) for n in
              list(t.params.names) + list(t.constants.names)}
    case.setdefault("_alive", []).extend(bystanders(case, setting))
    after = {n: float(t[n]) for n in before}
    if after != before:
        raise Violation(f"parameters/constants of one transform change when "
                        f"another transform object is configured: {before} "
                        f"-> {after}")
    if type(y) is not type(x) or y.shape != x.shape:
        raise Violation(f"forward changes type/shape: {type(y)} {y.shape}")
    if not np.all(np.isfinite(y)):
        i = np.argmin(np.isfinite(y))
        raise Violation(f"forward not finite on the domain: x={x.flat[i]!r} "
                        f"-> {y.flat[i]!r}, params={t.params.values}")
    xb = t.backward(y.copy())
    if type(xb) is not type(x) or xb.shape != x.shape:
        raise Violation(f"backward changes type/shape: {type(xb)} {xb.shape}")
    err = np.abs(xb - x) / sx
    if not np.all(err <= TOL):
        i = np.nanargmax(np.where(np.isnan(err), np.inf, err))
        raise Violation(
            f"backward(forward(x)) != x: x={x.flat[i]!r} y={y.flat[i]!r} "
            f"back={xb.flat[i]!r} rel.err={err.flat[i]:.3e} "
            f"params={dict(zip(t.params.names, t.params.values))} "
            f"constants={dict(zip(t.constants.names, t.constants.values))}")
    # the same points as 2-D arrays: same values element by element
    if cls != "Softmax" and len(x) >= 2:
        for shp in ((1, len(x)), (len(x), 1)) + (
                ((2, len(x) // 2),) if len(x) % 2 == 0 else ()):
            y2 = t.forward(x.reshape(shp).copy())
            x2 = t.backward(y.reshape(shp).copy())
            if np.shape(y2) != shp or np.shape(x2) != shp or \
                    not np.array_equal(np.ravel(y2), y, equal_nan=True) or \
                    not np.array_equal(np.ravel(x2), xb, equal_nan=True):
                raise Violation(f"forward / backward of the points given as "
                                f"an array of shape {shp} differ from the "
                                f"1-D calls; params={t.params.values}")
    yb = t.forward(xb.copy())
    err = np.abs(yb - y) / (1 + np.abs(y))
    if not np.all(err <= TOL):
        i = np.nanargmax(np.where(np.isnan(err), np.inf, err))
        raise Violation(
            f"forward(backward(y)) != y: y={y.flat[i]!r} x={xb.flat[i]!r} "
            f"again={yb.flat[i]!r} rel.err={err.flat[i]:.3e} "
            f"params={dict(zip(t.params.names, t.params.values))}")

    # list input is returned as ... whatever cast decides; scalars:
    if cls not in NO_SCALAR:
        x0 = float(x.flat[0])
        y0 = t.forward(x0)
        if not np.isscalar(y0) and np.ndim(y0) != 0:
            raise Violation(f"forward(scalar) returns {type(y0)}")
        if abs(float(y0) - float(y.flat[0])) > 1e-12 * (1 + abs(float(y0))):
            raise Violation("forward(scalar) differs from forward(array)")
        # censored back transform (it assumes an increasing map: a
        # logarithm base below 1 makes Log decreasing - round trip only)
        if cls == "Log" and (case["ctor"]["base"] or 3.) < 1:
            labels.append("log-base<1:no-censored-check")
            return True
        j = int(np.argsort(x)[len(x) // 2])
        c = float(x[j])
        xc = t.backward_censored(y.copy(), c)
        e = np.abs(xc - np.maximum(x, c)) / np.maximum(sx, sx[j])
        if not np.all(e <= TOL):
            i = int(np.nanargmax(np.where(np.isnan(e), np.inf, e)))
            raise Violation(
                f"backward_censored(forward(x), {c!r}) != max(x, c) at "
                f"x={x.flat[i]!r}: {xc.flat[i]!r}")
        if np.any(xc < c):
            raise Violation("backward_censored returns values below censor")
    away = bool(np.any(np.abs(y - x) > 1e-3 * sx)) if cls != "Softmax" \
        else True
    return away


SIBLINGS = {"LogSinh": ["Manly"], "Manly": ["LogSinh"],
            "BoxCox2": ["BoxCox1lam", "BoxCox1nu"], "BoxCox1lam": ["BoxCox2"],
            "BoxCox1nu": ["BoxCox2"], "Log": ["Reciprocal"],
            "Reciprocal": ["Log"]}


def bystanders(case, setting):
    """Fresh instances of the same class (configured with the other settings
    of the case and with scaled values of the current one) and of the classes
    that share code with it, each used once."""
    cls = case["cls"]
    out = []
    others = [s for s in case["settings"] if s is not setting]
    for s in others:
        o = tc.make({"cls": cls, "ctor": case["ctor"], "via": "class",
                     "settings": [s]})
        try:
            o.forward(tc.points(o, case, s)["x"])
        except Skip:
            pass
        out.append(o)
    for sib in SIBLINGS.get(cls, []):
        o = getattr(T, sib)()
        for n in list(o.params.names) + list(o.constants.names):
            n = str(n)
            if n in setting["p"]:
                lo, hi = (o.params.mins[list(o.params.names).index(n)],
                          o.params.maxs[list(o.params.names).index(n)]) \
                    if n in o.params.names else (-np.inf, np.inf)
                v = setting["p"][n] * 3.0 + 0.25
                if n == "lam" and sib == "Manly":
                    # lam away from (0, 1e-3) as in the generator
                    v = 2.5
                o[n] = float(min(max(v, lo), hi))
        o.forward(np.array([0.5, 1.5]))
        out.append(o)
    return out


def make_oracle(cls):
    def oracle(case):
        labels = [f"via:{case['via']}", f"set:{case.get('how', 'by-name')}"]
        t = tc.make(case)
        case = dict(case, _alive=[])
        nt = False
        nskip = 0
        for k, setting in enumerate(case["settings"]):
            if k > 0:
                tc.apply(t, setting["p"], case.get("how", "by-name"))
            # the values read back are the values set (inside the bounds)
            for name, v in setting["p"].items():
                if float(t[name]) != v:
                    raise Violation(f"parameter {name} set to {v!r} reads "
                                    f"back {float(t[name])!r}")
            try:
                away = roundtrip(t, case, setting, labels, backward_first=k > 0)
            except Skip:
                nskip += 1
                labels.append("setting-skipped")
                continue
            if away and not tc.is_default(t):
                nt = True
        if nskip == len(case["settings"]):
            raise Skip()
        return {"nt": nt or cls in ("Identity", "Softmax"),
                "labels": sorted(set(labels))}
    return oracle


SUBS = [
    Sub(f"C01.roundtrip.{cls}", make_oracle(cls),
        strategy=(lambda tier, cls=cls: tc.transform_case(cls)),
        n=(1500, 30000) if cls != "Identity" else (100, 1000),
        shards=(1, 1))
    for cls in tc.CLASSES
]
