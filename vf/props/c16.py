"""C16 - intersection and Voronoi weights conserve area."""
import math

import numpy as np
from hypothesis import strategies as st

from vf.core import Sub, Violation, Skip
from vf.props import gis_common as G
from hydrodiy.gis.grid import Grid, Catchment, voronoi

PROPERTY = "C16"
RULE = ("Hypothesis-generated fine flow grids 1x1..12x12 (cell size in "
        "{.25,.5,1,2}, origin on the quarter-cell lattice) with catchment "
        "cell sets that are random subsets, areas delineated on acyclic "
        "grids (filled and unfilled) or two catchments combined with + / -; coarse grids with cell-size ratio in "
        "{0.5,1,1.5,2,3,4}, 1..5 rows/cols and quarter-cell offsets so that fine "
        "centres fall inside, on edges and outside coarse cells, origins up to "
        "2^24 half cells from zero, grids with the shape and resolution of "
        "the flow direction grid moved by whole cells; 1..6 "
        "Voronoi points inside / outside / on cell centres / equidistant. "
        "Oracle (validity predicate, exact dyadic arithmetic): for each "
        "listed coarse cell n_in <= weight/areafactor <= n_in + n_edge, each "
        "cell listed once, cells with n_in > 0 always listed, total between "
        "the strict and closed counts, nothing outside the extent "
        "contributes, area_grid placement and corner; Voronoi weights >= 0, "
        "sum to 1, equal the fraction of cells nearest to each point with "
        "ties to the lowest index. Non-trivial = partial overlap, or ratio > "
        "1 with a non-zero offset, or (Voronoi) more cells than points with "
        "a tie.")


@st.composite
def cases(draw, tier):
    src = draw(st.sampled_from(["subset", "subset", "delineated", "sum",
                                "difference"]))
    gc = draw(G.random_grid(12, kinds=("forest", "forest", "majority")))
    nr, nc = gc["shape"]
    n = nr * nc
    csz = draw(st.sampled_from([0.25, 0.5, 1., 2.]))
    ox, oy = draw(st.integers(-20, 20)), draw(st.integers(-20, 20))
    if draw(st.integers(0, 3)) == 0:
        # origin far from zero compared with the cell size (projected
        # coordinates): still exact dyadic arithmetic
        ox += draw(st.sampled_from([-1, 1])) * 2 ** draw(st.integers(14, 24))
        oy += draw(st.sampled_from([-1, 1])) * 2 ** draw(st.integers(14, 24))
    case = {"shape": [nr, nc], "fd": gc["fd"], "kind": gc["kind"],
            "csz": csz, "ox": ox, "oy": oy, "src": src,
            "filled": draw(st.booleans())}
    if src == "subset":
        case["cells"] = sorted(draw(st.lists(st.integers(0, n - 1),
                                             min_size=1, max_size=n,
                                             unique=True)))
        # the list in any order (a delineation lists cells outlet first, a
        # dictionary may hold them in any order)
        if draw(st.booleans()):
            case["cells"] = draw(st.permutations(case["cells"]))
            case["order"] = "shuffled"
    elif src in ("sum", "difference"):
        # two catchments of the same flow direction grid combined with + / -
        # (one of them often small, the other anywhere on the grid)
        small = st.lists(st.integers(0, n - 1), min_size=1, max_size=3,
                         unique=True)
        anyset = st.lists(st.integers(0, n - 1), min_size=1, max_size=n,
                          unique=True)
        a, b = draw(small), draw(anyset)
        if src == "difference" or draw(st.booleans()):
            a, b = b, a
        case["cells"], case["cells2"] = sorted(a), sorted(b)
    else:
        case["outlet"] = draw(st.integers(0, n - 1))
        # an interior sink leaves a hole in the area (filled area larger)
        case["hole"] = draw(st.integers(0, n - 1)) \
            if draw(st.booleans()) else None
    case["ratio"] = draw(st.sampled_from([1., 1., 1.5, 2., 3., 4., 0.5]))
    case["gshape"] = [draw(st.integers(1, 5)), draw(st.integers(1, 5))]
    if draw(st.integers(0, 4)) == 0:
        # many coarse cells in few columns, several catchment cells in each,
        # visited in any order (a cell met again long after it was first
        # stored)
        case["gshape"] = [draw(st.integers(5, 10)), draw(st.integers(1, 2))]
        case["ratio"] = draw(st.sampled_from([2., 3., 1.5, 2.]))
        if src == "subset":
            case["cells"] = draw(st.permutations(list(range(n))))
            case["order"] = "shuffled"
    # the coarse grid is placed relative to one catchment cell (anchor) so
    # that overlaps are the norm: offsets in quarter fine cells
    case["anchor"] = draw(st.integers(0, 143))
    case["goff"] = [draw(st.integers(-4, 84)), draw(st.integers(-4, 84))]
    # a grid with the shape and resolution of the flow direction grid,
    # moved by whole cells
    if draw(st.integers(0, 5)) == 0:
        case["twin"] = [draw(st.integers(-3, 3)), draw(st.integers(-3, 3))]
    case["gdata"] = draw(st.booleans())
    if draw(st.integers(0, 3)) == 0:
        case["nudge"] = [draw(st.sampled_from([-1, 1, 0])),
                         draw(st.sampled_from([-1, 1, 0]))]
    npts = draw(st.integers(1, 6))
    # point coordinates in eighths of a fine cell (exact squared
    # distances): on centres, edges, and several points close to the same
    # cell centre at different distances
    near = draw(st.booleans())
    if draw(st.integers(0, 4)) == 0:
        # every point far outside the flow direction grid (rain gauges of a
        # neighbouring region), each in its own direction, from twice the
        # grid size to 2^14 cells away: the nearest one still gets the cell
        case["ptsmode"] = "far"
        case["pts"] = []
        for _ in range(max(npts, 2)):
            sx, sy = draw(st.sampled_from(
                [(-1, 0), (1, 0), (0, -1), (0, 1), (-1, -1), (1, 1),
                 (-1, 1), (1, -1)]))
            k = draw(st.one_of(
                st.integers(2 * (nr + nc) + 2, 8 * (nr + nc) + 8),
                st.integers(7, 14).map(lambda e: 2 ** e)))
            case["pts"].append(
                [4 * draw(st.integers(-2, 2 * nc + 2)) + 8 * sx * k,
                 4 * draw(st.integers(-2, 2 * nr + 2)) + 8 * sy * k])
    elif near:
        cx, cy = draw(st.integers(0, nc - 1)), draw(st.integers(0, nr - 1))
        case["pts"] = [[8 * cx + 4 + draw(st.integers(-3, 3)),
                        8 * cy + 4 + draw(st.integers(-3, 3))]
                       for _ in range(npts)]
    else:
        case["pts"] = [[4 * draw(st.integers(-2, 2 * nc + 2)),
                        4 * draw(st.integers(-2, 2 * nr + 2))]
                       for _ in range(npts)]
    return case


def setup(case):
    nr, nc = case["shape"]
    csz = case["csz"]
    xll, yll = case["ox"] * csz / 2, case["oy"] * csz / 2
    fd = Grid("fd", nc, nr, cellsize=csz, xllcorner=xll, yllcorner=yll,
              dtype=np.int64)
    fda = G.fd_array(case)
    if case.get("hole") is not None:
        fda.flat[case["hole"]] = 0
        case = dict(case, fd=fda.ravel().tolist())
    fd.data = fda
    ca = Catchment("c", fd)
    if case["src"] == "subset":
        cells = np.array(case["cells"], dtype=np.int64)
        ca._idxcells_area = cells
        ca._idxcells_area_filled = cells
    elif case["src"] in ("sum", "difference"):
        cb = Catchment("d", fd)
        for c_, key in ((ca, "cells"), (cb, "cells2")):
            cells = np.array(case[key], dtype=np.int64)
            c_._idxcells_area = cells
            c_._idxcells_area_filled = cells
        ca = ca + cb if case["src"] == "sum" else ca - cb
        if len(ca.idxcells_area) == 0:
            raise Skip()
    else:
        down = G.down_model(fda)
        n = nr * nc
        sizes = [len(G.area_model(down, c, set())) for c in range(n)]
        outlet = case["outlet"] if sizes[case["outlet"]] > 1 \
            else int(np.argmax(sizes))
        ca.delineate_area(outlet, nval=4 * n + 8)
        if len(ca.idxcells_area) == 0:
            raise Skip()
    return fd, ca, xll, yll


def oracle(case):
    fd, ca, xll, yll = setup(case)
    csz = case["csz"]
    labels = [f"src:{case['src']}", f"ratio:{case['ratio']}"]
    if case.get("order"):
        labels.append("cell-list:" + case["order"])
    cells = ca.idxcells_area_filled if case["filled"] else ca.idxcells_area
    cells = np.asarray(cells, dtype=np.int64)
    xy = fd.cell2coord(cells)
    C = csz * case["ratio"]
    gnr, gnc = case["gshape"]
    ax, ay = xy[case["anchor"] % len(xy)]
    span_x = int(4 * case["ratio"] * gnc) + 3
    span_y = int(4 * case["ratio"] * gnr) + 3
    qx = (case["goff"][0] + 4) % span_x - 1
    qy = (case["goff"][1] + 4) % span_y - 1
    gx = ax - qx * csz / 4
    gy = ay - qy * csz / 4
    if case.get("twin") is not None:
        C = csz
        gnr, gnc = case["shape"]
        gx, gy = xll + case["twin"][0] * csz, yll + case["twin"][1] * csz
        labels.append("twin-of-flowdir-grid:moved-by-"
                      + ("0" if case["twin"] == [0, 0] else "whole-cells"))
    if abs(case["ox"]) > 1000:
        labels.append("origin-far-from-zero")
    if case.get("nudge"):
        # the grid moved by a hair (5e-11 of a fine cell): centres that were
        # on an edge are now strictly inside a cell, 5e-11 from its edge
        gx = gx + case["nudge"][0] * 5e-11 * csz
        gy = gy + case["nudge"][1] * 5e-11 * csz
        labels.append("grid-moved-by-a-hair")
    g = Grid("g", gnc, gnr, cellsize=C, xllcorner=gx, yllcorner=gy)
    if case.get("gdata"):
        # the grid the catchment is intersected with holds values of its
        # own (a rainfall field, a mask)
        g.data = (np.arange(gnr * gnc, dtype=np.float64).reshape(gnr, gnc)
                  * 1.5 + 2.0)
        labels.append("target-grid-holds-data")
    g0 = np.asarray(g.data).copy()
    af = (csz / C) ** 2

    # model: strict / edge counts per coarse cell (dyadic arithmetic, exact)
    n_in, n_edge = {}, {}
    strict_total = closed_total = 0
    outside = 0
    for (x, y) in xy:
        u, v = (x - gx) / C, (y - gy) / C
        inside_ext = 0 < u < gnc and 0 < v < gnr
        closed_ext = 0 <= u <= gnc and 0 <= v <= gnr
        on_edge = (u == math.floor(u)) or (v == math.floor(v))
        if closed_ext:
            closed_total += 1
        else:
            outside += 1
        if inside_ext and not on_edge:
            strict_total += 1
            col, rowb = math.floor(u), math.floor(v)
            k = (gnr - 1 - rowb) * gnc + col
            n_in[k] = n_in.get(k, 0) + 1
        elif closed_ext:
            # on an edge: may go to any adjacent coarse cell
            for col in {math.floor(u), math.ceil(u) - 1}:
                for rowb in {math.floor(v), math.ceil(v) - 1}:
                    if 0 <= col < gnc and 0 <= rowb < gnr:
                        k = (gnr - 1 - rowb) * gnc + col
                        n_edge[k] = n_edge.get(k, 0) + 1
    try:
        ag, idx, w = ca.intersect(g, filled=case["filled"])
    except Exception as e:
        if n_in:
            raise Violation(f"intersect raised {type(e).__name__}: {e} "
                            f"although {strict_total} cell centres fall "
                            "strictly inside the grid")
        labels.append("no-overlap:exception")
        ag = None
    if ag is not None:
        idl = [int(i) for i in idx]
        if len(idl) != len(set(idl)):
            raise Violation(f"intersect lists a cell twice: {idl}")
        got = dict(zip(idl, w.tolist()))
        for k, ww in got.items():
            if not 0 <= k < gnr * gnc:
                raise Violation(f"intersect lists cell {k} outside the grid")
            lo = n_in.get(k, 0)
            hi = lo + n_edge.get(k, 0)
            cnt = ww / af
            if not (lo - 1e-9 <= cnt <= hi + 1e-9) or \
                    abs(cnt - round(cnt)) > 1e-9:
                raise Violation(
                    f"coarse cell {k}: weight {ww!r} = {cnt!r} fine cells; "
                    f"{lo} centres strictly inside, {hi - lo} on its edges "
                    f"(areafactor {af}); fine csz {csz} origin "
                    f"({xll}, {yll}), coarse {gnr}x{gnc} csz {C} origin "
                    f"({gx}, {gy})")
        for k in n_in:
            if k not in got:
                raise Violation(f"coarse cell {k} holds {n_in[k]} cell "
                                "centres but is not listed")
        tot = sum(got.values()) / af
        if not (strict_total - 1e-9 <= tot <= closed_total + 1e-9):
            raise Violation(
                f"total weight = {tot!r} fine cells, but {strict_total} "
                f"centres are strictly inside the extent and {closed_total} "
                "inside or on its border")
        # area grid
        rc = g.cell2rowcol(np.array(idl, dtype=np.int64))
        r0, c0 = ag.parentgrid_rows_start, ag.parentgrid_cols_start
        r1, c1 = ag.parentgrid_rows_end, ag.parentgrid_cols_end
        if (r0, r1, c0, c1) != (rc[:, 0].min(), rc[:, 0].max(),
                                rc[:, 1].min(), rc[:, 1].max()):
            raise Violation("area_grid row/col bookkeeping does not bound "
                            "the listed cells")
        exp = np.zeros((r1 - r0 + 1, c1 - c0 + 1))
        for (r, c), ww in zip(rc, w):
            exp[r - r0, c - c0] = ww
        if ag.data.shape != exp.shape or \
                not np.allclose(ag.data, exp, atol=1e-12, rtol=0):
            raise Violation(f"area_grid data {ag.data.tolist()} != weights "
                            f"placed at their rows/cols {exp.tolist()}")
        x0 = gx + c0 * C
        y0 = gy + (gnr - 1 - r1) * C
        if abs(ag.xllcorner - x0) > 1e-9 * max(1, abs(x0)) or \
                abs(ag.yllcorner - y0) > 1e-9 * max(1, abs(y0)) or \
                ag.cellsize != C:
            raise Violation(
                f"area_grid corner ({ag.xllcorner}, {ag.yllcorner}) != "
                f"parent cell corner ({x0}, {y0})")
    if not np.array_equal(np.asarray(g.data), g0):
        raise Violation("intersect changed the data of the grid it was "
                        "given")
    partial = 0 < strict_total and (outside > 0 or closed_total < len(xy))
    if partial:
        labels.append("partial-overlap")
    if outside and any(0 < -((x - gx) / C) <= 1 or 0 < -((y - gy) / C) <= 1
                       for x, y in xy):
        labels.append("centres-just-left/below")
    nt = partial or (case["ratio"] > 1 and strict_total > 0
                     and (qx % 4 != 2 or qy % 4 != 2))

    # ---- voronoi (on the unfilled area, as the function uses it)
    acells = np.asarray(ca.idxcells_area, dtype=np.int64)
    axy = fd.cell2coord(acells)
    pts = np.array([[xll + p[0] * csz / 8, yll + p[1] * csz / 8]
                    for p in case["pts"]], dtype=np.float64)
    wv = voronoi(ca, pts.copy())
    wl = voronoi(ca, pts.tolist())
    if not np.array_equal(wl, wv):
        raise Violation("voronoi differs between array and list input")
    if len(pts) == 1:
        w1 = voronoi(ca, pts[0].copy())
        if w1.shape != (1,) or abs(w1[0] - 1) > 1e-12:
            raise Violation(f"voronoi with a single point given as a pair "
                            f"returns {w1}")
    if wv.shape != (len(pts),):
        raise Violation(f"voronoi returns shape {wv.shape}")
    cnt = np.zeros(len(pts))
    tie = False
    for (x, y) in axy:
        d2 = (pts[:, 0] - x) ** 2 + (pts[:, 1] - y) ** 2      # exact
        j = int(np.argmin(d2))
        tie = tie or np.sum(d2 == d2[j]) > 1
        cnt[j] += 1
    if (wv < 0).any() or abs(wv.sum() - 1) > 1e-12:
        raise Violation(f"voronoi weights {wv.tolist()} negative or not "
                        "summing to 1")
    if not np.allclose(wv, cnt / len(axy), atol=1e-12, rtol=0):
        raise Violation(
            f"voronoi weights {wv.tolist()} != fraction of cells nearest to "
            f"each point {(cnt / len(axy)).tolist()} (ties to the lowest "
            f"index); points {pts.tolist()}")
    # the same catchment object with another area, then the same calls again
    if len(acells) >= 2:
        keep = acells[::2].copy()
        ca._idxcells_area = keep
        ca._idxcells_area_filled = keep
        wv2 = voronoi(ca, pts.copy())
        kxy = fd.cell2coord(keep)
        cnt2 = np.zeros(len(pts))
        for (x, y) in kxy:
            d2 = (pts[:, 0] - x) ** 2 + (pts[:, 1] - y) ** 2
            cnt2[int(np.argmin(d2))] += 1
        if not np.allclose(wv2, cnt2 / len(kxy), atol=1e-12, rtol=0):
            raise Violation("voronoi on the same catchment object after its "
                            "area changed does not follow the new area")
        try:
            ag2, idx2, w2 = ca.intersect(g)
            tot2 = float(np.sum(w2)) / af
            s2 = c2 = 0
            for (x, y) in kxy:
                u, v = (x - gx) / C, (y - gy) / C
                if 0 <= u <= gnc and 0 <= v <= gnr:
                    c2 += 1
                    if 0 < u < gnc and 0 < v < gnr and \
                            u != math.floor(u) and v != math.floor(v):
                        s2 += 1
            if not (s2 - 1e-9 <= tot2 <= c2 + 1e-9):
                raise Violation(
                    "intersect on the same catchment object after its area "
                    f"changed: total {tot2!r} fine cells, expected between "
                    f"{s2} and {c2}")
        except Violation:
            raise
        except Exception:
            pass
        labels.append("second-call-after-area-change")
    if tie:
        labels.append("voronoi:tie")
    if len(axy) > len(pts):
        labels.append("voronoi:more-cells-than-points")
    if case.get("ptsmode") == "far":
        labels.append("voronoi:all-points-far-outside"
                      + (":nearest-not-first" if cnt[0] < len(axy) else ""))
    if len(ca.idxcells_area_filled) > len(ca.idxcells_area):
        labels.append("filled-area-larger")
    nt = nt or (tie and len(axy) > len(pts))
    return {"nt": bool(nt), "labels": sorted(set(labels))}


SUBS = [
    Sub("C16.intersect+voronoi", oracle, strategy=cases, n=(500, 6000),
        shards=(16, 16)),
]
