"""C04 - deterministic and categorical skill scores equal their definitions."""
import math

import numpy as np
import pandas as pd
from hypothesis import strategies as st
from scipy.stats import rankdata

from vf.core import Sub, Violation, Skip
from hydrodiy.stat import metrics, transform as T

PROPERTY = "C04"
RULE = ("(a) continuous scores: log-normal series of length 2..40 (relative "
        "spread 1e-3..10, optional shift to negative means for "
        "Identity/Sinh), transforms Identity/Log/BoxCox2/Reciprocal/Sinh, "
        "bias types, corr types x ensemble statistic, excludenull with "
        "NaN/+-inf/negative values scattered in either series; oracle = "
        "textbook definitions evaluated on trans.forward(.), perfect / "
        "mean simulation values, upper bounds, affine / scale invariances, "
        "sub-series equality for excludenull. (b) confusion matrices over "
        "2..6 categories with absent categories, ncat given or inferred; "
        "oracle = direct pair counting. (c) 2x2 tables with counts 1..500 "
        "and odds ratio forced below/at/above 1; oracle = contingency-table "
        "definitions. Non-trivial = transform is not Identity, or a pair is "
        "removed, or a category is absent, or the odds ratio is <= 1.")

EPS = 1e-10
unit = st.floats(0., 1., allow_nan=False)
sunit = st.floats(-1., 1., allow_nan=False)
normal = st.floats(-4., 4., allow_nan=False)

TRANS = ["Identity", "Log", "BoxCox2", "Reciprocal", "Sinh"]


def make_trans(spec):
    name = spec["name"]
    t = getattr(T, name)()
    for k, v in spec["p"].items():
        t[k] = v
    return t


@st.composite
def trans_spec(draw, allow_negative):
    name = draw(st.sampled_from(
        ["Identity", "Sinh"] if allow_negative else TRANS))
    p = {}
    if name in ("Log", "Reciprocal"):
        p = {"nu": draw(st.sampled_from([1e-10, 1e-3, 0.1, 1., 10.]))}
    elif name == "BoxCox2":
        p = {"nu": draw(st.sampled_from([1e-10, 1e-3, 0.1, 1., 10.])),
             "lam": draw(st.sampled_from([0., .2, .5, 1., 2.]))}
    elif name == "Sinh":
        p = {"nu": draw(st.sampled_from([0., 1., -3.])),
             "scale": draw(st.sampled_from([1e-2, 1., 10.]))}
    return {"name": name, "p": p}


@st.composite
def series_case(draw, tier):
    n = draw(st.integers(2, 40))
    mag = 10. ** draw(st.integers(-2, 3))
    spread = math.exp(math.log(1e-3) + draw(unit) * (math.log(10.)
                                                     - math.log(1e-3)))
    z = [draw(normal) for _ in range(n)]
    e = [draw(normal) for _ in range(n)]
    if len(set(z)) == 1:
        z[0] += 1.0
    noise = draw(st.sampled_from([0.01, 0.1, 1.0]))
    # a nearly dried-out simulation: tiny values with a tiny (non-zero)
    # spread against ordinary observations
    tiny_sim = draw(st.integers(0, 7)) == 0
    negative = draw(st.integers(0, 4)) == 0
    tr = draw(trans_spec(negative))
    if tiny_sim:
        # (the regime is about the *ratio* of the two spreads: ordinary
        # flows in ML/d with a spread of hundreds, in untransformed space)
        negative = False
        tr = {"name": "Identity", "p": {}}
        mag = draw(st.sampled_from([1e3, 1e3, 1e5]))
        spread = max(spread, 1.0)
    nens = draw(st.integers(1, 5))
    ens_e = [[draw(normal) for _ in range(nens)] for _ in range(n)]
    # contamination for excludenull: position, series, kind
    ncont = draw(st.integers(0, min(4, n - 2)))
    pos = draw(st.lists(st.integers(0, n - 1), min_size=ncont,
                        max_size=ncont, unique=True))
    # ("member": one ensemble member only, the simulation itself is kept)
    cont = [[p, draw(st.sampled_from(["obs", "sim", "both", "member"])),
             draw(st.sampled_from(["nan", "inf", "-inf", "neg"]))]
            for p in sorted(pos)]
    return {"n": n, "mag": mag, "spread": spread, "z": z, "e": e,
            "noise": noise, "negative": negative, "trans": tr,
            "tiny_sim": tiny_sim,
            "ens_e": ens_e, "cont": cont,
            "container": draw(st.sampled_from(["ndarray", "ndarray", "list",
                                               "series", "strided"])),
            "btype": draw(st.sampled_from(["standard", "normalised", "log"])),
            "ctype": draw(st.sampled_from(["Pearson", "Spearman"])),
            "cstat": draw(st.sampled_from(["mean", "median"])),
            "a": draw(st.sampled_from([2., -3., 0.5, 10.])),
            "b": draw(st.sampled_from([0., 1., -7.5, 100.])),
            "k": draw(st.sampled_from([2., 0.5, 3.7, 100.]))}


def build_series(case):
    z = np.array(case["z"])
    e = np.array(case["e"])
    sp = case["spread"]
    obs = case["mag"] * np.exp(sp * z / 4)
    sim = case["mag"] * np.exp(sp * (z + case["noise"] * e) / 4)
    if case.get("tiny_sim") and case["trans"]["name"] == "Identity" \
            and not case["negative"]:
        sim = 1e-8 * (2.0 + np.tanh(e))
    if case["negative"]:
        obs, sim = -obs, -sim
    ens = case["mag"] * np.exp(
        sp * (z[:, None] + case["noise"] * np.array(case["ens_e"])) / 4)
    if case["negative"]:
        ens = -ens
    return obs, sim, ens


def pearson(a, b):
    ma, mb = a.mean(), b.mean()
    da, db = a - ma, b - mb
    return float(np.sum(da * db) / math.sqrt(np.sum(da**2) * np.sum(db**2)))


def ref_scores(to, ts, btype):
    """Definitions on already transformed series."""
    mo, ms = to.mean(), ts.mean()
    out = {}
    out["nse"] = 1 - np.mean((ts - to)**2) / np.mean((to - mo)**2)
    so = math.sqrt(np.mean((to - mo)**2))
    ss = math.sqrt(np.mean((ts - ms)**2))
    # (the functions return NaN when a spread is below 1e-10; the reference
    # is evaluated when the simulated spread is ten times that and not
    # dominated by rounding)
    if ss > 1e-6 * abs(ms) and ss > 1e-9:
        r = pearson(to, ts)
        out["kge"] = 1 - math.sqrt((1 - ms / mo)**2 + (1 - ss / so)**2
                                   + (1 - r)**2)
    if btype == "standard":
        out["bias"] = (ms - mo) / mo
    elif btype == "normalised":
        if abs(ms + mo) > 1e-6 * (abs(ms) + abs(mo)):
            out["bias"] = (ms - mo) / (ms + mo)
    else:
        if ms > 1e-6 and mo > 1e-6:
            out["bias"] = math.log(ms) - math.log(mo)
        elif ms <= 0 or mo <= 0:
            out["bias"] = float("nan")
    return out


def same(a, b, tol, what, extra=""):
    if isinstance(b, float) and math.isnan(b):
        if not (isinstance(a, float) and math.isnan(a)):
            raise Violation(f"{what}: expected nan, got {a!r} {extra}")
        return
    if not (abs(a - b) <= tol * max(1., abs(b))):
        raise Violation(f"{what}: got {a!r}, expected {b!r} {extra}")


def nondegenerate(to):
    """Observed mean and std not within 1e-6 (relative) of zero."""
    m = np.max(np.abs(to))
    if not np.all(np.isfinite(to)) or m == 0:
        return False
    mo, so = abs(to.mean()), to.std()
    return mo > 1e-6 * m and so > 1e-6 * m and mo > 1e-6 and so > 1e-6


def series_oracle(case):
    obs, sim, ens = build_series(case)
    trans = make_trans(case["trans"])
    ident = T.Identity()
    btype = case["btype"]
    labels = [f"trans:{case['trans']['name']}", f"bias:{btype}",
              f"corr:{case['ctype']}/{case['cstat']}"]
    to, ts = trans.forward(obs), trans.forward(sim)
    if not nondegenerate(to) or not np.all(np.isfinite(ts)):
        raise Skip()
    ref = ref_scores(to, ts, btype)
    tol = 1e-9
    info = f"trans={case['trans']}"

    # ---- definition on the transformed series (inputs passed as arrays,
    # pandas series or strided views; lists where the transform accepts them)
    cont = case.get("container", "ndarray")
    if cont == "list" and case["trans"]["name"] != "Identity":
        cont = "ndarray"

    def W(a):
        if cont == "list":
            return a.tolist()
        if cont == "series":
            return pd.Series(a)
        if cont == "strided":
            big = np.zeros(2 * len(a))
            big[::2] = a
            return big[::2]
        return a
    labels.append(f"container:{cont}")
    got = {"nse": metrics.nse(W(obs), W(sim), trans),
           "kge": metrics.kge(W(obs), W(sim), trans),
           "bias": metrics.bias(W(obs), W(sim), trans, type=btype)}
    for k, v in ref.items():
        same(float(got[k]), v, tol, f"{k}(obs, sim, trans) vs definition",
             info)
        # score(obs, sim, trans) == score(forward(obs), forward(sim))
    same(float(metrics.nse(to, ts, ident)), float(got["nse"]), tol,
         "nse of transformed series with Identity")
    if "kge" in ref:
        same(float(metrics.kge(to, ts, ident)), float(got["kge"]), tol,
             "kge of transformed series with Identity")
    if got["nse"] > 1 + 1e-12 or ("kge" in ref and got["kge"] > 1 + 1e-12):
        raise Violation(f"score above 1: {got}")

    # ---- correlation
    tens = trans.forward(ens)
    stat = np.mean if case["cstat"] == "mean" else np.median
    tsim = stat(tens, axis=1)
    if tsim.std() > 1e-6 * np.max(np.abs(tsim)):
        if case["ctype"] == "Pearson":
            rc = pearson(to, tsim)
        else:
            rc = pearson(rankdata(to), rankdata(tsim))
        cv = metrics.corr(obs, ens, trans, stat=case["cstat"],
                          type=case["ctype"])
        same(float(cv), rc, 1e-9, "corr vs definition", info)
        if ens.shape[1] == 1:
            cv1 = metrics.corr(obs, ens[:, 0].copy(), trans,
                               stat=case["cstat"], type=case["ctype"])
            same(float(cv1), rc, 1e-9, "corr with a 1-D simulation", info)
        if abs(cv) > 1 + 1e-12:
            raise Violation(f"|corr| > 1: {cv}")

    # ---- perfect simulation
    same(float(metrics.nse(obs, obs.copy(), trans)), 1.0, 1e-12,
         "nse of a perfect simulation")
    same(float(metrics.kge(obs, obs.copy(), trans)), 1.0, 1e-9,
         "kge of a perfect simulation")
    for bt in ("standard", "normalised"):
        same(float(metrics.bias(obs, obs.copy(), trans, type=bt)), 0.0,
             1e-12, f"bias({bt}) of a perfect simulation")
    if to.mean() > 1e-6:
        same(float(metrics.bias(obs, obs.copy(), trans, type="log")), 0.0,
             1e-12, "bias(log) of a perfect simulation")
    for ct in ("Pearson", "Spearman"):
        same(float(metrics.corr(obs, obs[:, None].copy(), trans, type=ct)),
             1.0, 1e-9, f"corr({ct}) of a perfect simulation")

    # ---- simulating the observed mean (in transformed space)
    cst = np.full_like(to, to.mean())
    same(float(metrics.nse(to, cst, ident)), 0.0, 1e-9,
         "nse when simulating the observed mean")
    if case["trans"]["name"] == "Identity":
        same(float(metrics.nse(obs, np.full_like(obs, obs.mean()), trans)),
             0.0, 1e-9, "nse when simulating the observed mean")

    # ---- invariances (Identity transform)
    a, b, k = case["a"], case["b"] * case["mag"], case["k"]
    n0 = float(metrics.nse(obs, sim))
    same(float(metrics.nse(a * obs + b, a * sim + b)), n0,
         1e-7 * max(1., abs(n0)), f"nse under the affine map {a}*x+{b}")
    if nondegenerate(obs):
        b0 = float(metrics.bias(obs, sim))
        same(float(metrics.bias(k * obs, k * sim)), b0, 1e-9,
             f"bias under scaling by {k}")
        k0 = metrics.kge(obs, sim)
        if not math.isnan(k0):
            same(float(metrics.kge(k * obs, k * sim)), float(k0), 1e-9,
                 f"kge under scaling by {k}")

    # ---- excludenull
    removed = 0
    if case["cont"]:
        o2, s2, e2 = obs.copy(), sim.copy(), ens.copy()
        for p, which, kind in case["cont"]:
            v = {"nan": np.nan, "inf": np.inf, "-inf": -np.inf,
                 "neg": -abs(obs[p]) - 1e3 * case["mag"]}[kind]
            if case["negative"] and kind == "neg":
                v = np.nan
            if which in ("obs", "both"):
                o2[p] = v
            if which in ("sim", "both"):
                s2[p] = v
                e2[p, :] = v
            if which == "member":
                e2[p, (p * 7) % e2.shape[1]] = v
        to2, ts2 = trans.forward(o2), trans.forward(s2)
        keep = np.isfinite(to2) & np.isfinite(ts2)
        removed = int((~keep).sum())
        labels.append("excludenull:removed" if removed else
                      "excludenull:none-removed")
        if keep.sum() >= 2 and nondegenerate(to2[keep]):
            r2 = ref_scores(to2[keep], ts2[keep], btype)
            # the switch as a Python bool or a numpy bool (the result of a
            # test on an array)
            flag = [True, np.True_, np.bool_(removed >= 0), True][
                (removed + len(o2)) % 4]
            labels.append("excludenull-given-as:" + (
                "python-bool" if type(flag) is bool else "numpy-bool"))
            g2 = {"nse": metrics.nse(o2, s2, trans, excludenull=flag),
                  "kge": metrics.kge(o2, s2, trans, excludenull=flag),
                  "bias": metrics.bias(o2, s2, trans, excludenull=flag,
                                       type=btype)}
            for kk, v in r2.items():
                same(float(g2[kk]), v, tol,
                     f"{kk}(excludenull=True) vs score of complete pairs",
                     f"{info} removed={removed} cont={case['cont']}")
            # and equals the call on the sub-series
            same(float(metrics.nse(o2[keep], s2[keep], trans)),
                 float(g2["nse"]), tol, "nse excludenull vs sub-series")
            # correlation with excludenull
            te2 = trans.forward(e2)
            okrow = ~np.isnan(o2) & ~np.isnan(e2).all(axis=1)
            with np.errstate(all="ignore"):
                tsm = (np.nanmean if case["cstat"] == "mean"
                       else np.nanmedian)(te2[okrow], axis=1)
            tob = to2[okrow]
            kc = np.isfinite(tob) & np.isfinite(tsm)
            if kc.sum() >= 3 and nondegenerate(tob[kc]) and \
                    tsm[kc].std() > 1e-6 * np.max(np.abs(tsm[kc])):
                if case["ctype"] == "Pearson":
                    rc = pearson(tob[kc], tsm[kc])
                else:
                    rc = pearson(rankdata(tob[kc]), rankdata(tsm[kc]))
                cv = metrics.corr(o2, e2, trans,
                                  excludenull=[True, np.True_][len(o2) % 2],
                                  stat=case["cstat"], type=case["ctype"])
                same(float(cv), rc, 1e-9,
                     "corr(excludenull=True) vs complete pairs",
                     f"{info} cont={case['cont']}")
    nt = case["trans"]["name"] != "Identity" or removed > 0
    return {"nt": nt, "labels": labels}


# ------------------------------------------------------------ confusion matrix
@st.composite
def conf_case(draw, tier):
    k = draw(st.integers(2, 6))
    n = draw(st.integers(1, 60))
    cats_o = draw(st.lists(st.integers(0, k - 1), min_size=1, max_size=k,
                           unique=True))
    cats_s = draw(st.lists(st.integers(0, k - 1), min_size=1, max_size=k,
                           unique=True))
    given = draw(st.booleans())
    obs = [draw(st.sampled_from(cats_o)) for _ in range(n)]
    sim = [draw(st.sampled_from(cats_s)) for _ in range(n)]
    if not given:
        # inferred size: make the categories present contiguous from 0
        # (otherwise the requested size is not defined by the docstring)
        remap = {c: i for i, c in enumerate(sorted(set(obs) | set(sim)))}
        obs = [remap[c] for c in obs]
        sim = [remap[c] for c in sim]
    return {"k": k, "obs": obs, "sim": sim,
            "given": given,
            "container": draw(st.sampled_from(["list", "int64", "bool",
                                               "float", "uint8", "int8",
                                               "series"]))}


def conf_oracle(case):
    k = case["k"]
    obs, sim = case["obs"], case["sim"]
    present = sorted(set(obs) | set(sim))
    labels = []
    if case["given"]:
        ncat = k
        labels.append("ncat:given")
    else:
        if present != list(range(len(present))):
            # requested size undefined by the docstring
            raise Skip()
        ncat = None
        k = len(present)
        labels.append("ncat:inferred")
    cont = case["container"]
    if cont == "int64":
        o, s = np.array(obs, dtype=np.int64), np.array(sim, dtype=np.int64)
    elif cont == "float":
        o, s = np.array(obs, dtype=np.float64), np.array(sim, dtype=np.float64)
    elif cont in ("uint8", "int8") and max(present) <= 127:
        # category codes of a one-byte raster
        o, s = np.array(obs, dtype=cont), np.array(sim, dtype=cont)
    elif cont == "series":
        o = pd.Series(obs, index=np.arange(len(obs))[::-1])
        s = pd.Series(sim, index=np.arange(len(sim)) + 5)
    elif cont == "bool" and max(present) <= 1:
        o, s = np.array(obs, dtype=bool), np.array(sim, dtype=bool)
    else:
        o, s = list(obs), list(sim)
    cm = metrics.confusion_matrix(o, s, ncat=ncat)
    arr = np.asarray(cm)
    if arr.shape != (k, k):
        raise Violation(f"confusion matrix shape {arr.shape}, expected "
                        f"({k}, {k})")
    ref = np.zeros((k, k), dtype=np.int64)
    for a, b in zip(obs, sim):
        ref[a, b] += 1
    if not np.array_equal(arr.astype(np.int64), ref) \
            or not np.all(arr == ref):
        raise Violation(f"confusion matrix {arr.tolist()} != pair counts "
                        f"{ref.tolist()}")
    if hasattr(cm, "loc"):
        for i in range(k):
            for j in range(k):
                if cm.loc[i, j] != ref[i, j]:
                    raise Violation(f"cm.loc[{i},{j}]={cm.loc[i, j]} != "
                                    f"{ref[i, j]}")
    if arr.sum() != len(obs):
        raise Violation("total differs from the series length")
    absent = len(set(obs)) < k or len(set(sim)) < k
    if absent:
        labels.append("category-absent")
    if k == 2 and ref.min() > 0:
        sc, _ = metrics.binary(cm)
        check_binary(ref, sc)
        labels.append("binary-from-series")
    return {"nt": absent, "labels": labels}


# -------------------------------------------------------------------- binary
@st.composite
def bin_case(draw, tier):
    regime = draw(st.sampled_from(["below", "at", "above", "free"]))
    c = st.integers(1, 500)
    if regime == "free":
        return {"tab": [draw(c), draw(c), draw(c), draw(c)], "regime": regime}
    if regime == "at":
        a, b, m = draw(st.integers(1, 20)), draw(st.integers(1, 20)), \
            draw(st.integers(1, 20))
        # TN*TP == FP*FN
        return {"tab": [a * m, b * m, a, b], "regime": regime}
    tn, tp, fp, fn = draw(c), draw(c), draw(c), draw(c)
    if (tn * tp > fp * fn) != (regime == "above"):
        tn, fp = fp, tn
        tp, fn = fn, tp
    return {"tab": [tn, fp, fn, tp], "regime": regime}


def check_binary(tab, sc):
    (TN, FP), (FN, TP) = [[int(v) for v in r] for r in np.asarray(tab)]
    n = TN + FP + FN + TP
    H = TP / (TP + FN)
    F = FP / (FP + TN)
    exp = {
        "truepos": TP, "falsepos": FP, "trueneg": TN, "falseneg": FN,
        "hitrate": H, "falsealarm": F,
        "precision": TP / (TP + FP),
        "accuracy": (TP + TN) / n,
        "bias": (TP + FP) / (TP + FN),
        "F1": 2 * TP / (2 * TP + FP + FN),
        "MCC": (TP * TN - FP * FN) / math.sqrt(
            float(TP + FP) * (TP + FN) * (TN + FP) * (TN + FN)),
        "LOR": math.log(TP * TN / (FP * FN)),
        "ORSS": (TP * TN - FP * FN) / (TP * TN + FP * FN),
    }
    for k, v in exp.items():
        g = sc[k]
        tol = 1e-8 if k in ("LOR", "ORSS") else 1e-9
        if not (isinstance(g, (int, float, np.integer, np.floating))
                and abs(g - v) <= tol * max(1., abs(v))):
            raise Violation(f"binary score {k}={g!r}, contingency-table "
                            f"definition gives {v!r} for "
                            f"TN,FP,FN,TP={TN},{FP},{FN},{TP}")


def bin_oracle(case):
    tn, fp, fn, tp = case["tab"]
    tab = [[tn, fp], [fn, tp]]
    sc, _ = metrics.binary(tab)
    check_binary(tab, sc)
    sc2, _ = metrics.binary(np.array(tab))
    check_binary(tab, sc2)
    theta = tp * tn / (fp * fn)
    lab = "odds:<1" if theta < 1 else "odds:=1" if theta == 1 else "odds:>1"
    return {"nt": theta <= 1, "labels": [lab, f"regime:{case['regime']}"]}


SUBS = [
    Sub("C04.continuous-scores", series_oracle, strategy=series_case,
        n=(500, 15000), shards=(4, 8)),
    Sub("C04.confusion-matrix", conf_oracle, strategy=conf_case,
        n=(500, 12000), shards=(4, 8)),
    Sub("C04.binary-scores", bin_oracle, strategy=bin_case,
        n=(2000, 100000), shards=(1, 2)),
]
