"""Independent graph model of a flow direction grid (C06, C11, C16) and
grid generators.

ESRI direction codes written out literally:

     32  64  128
     16   0    1
      8   4    2
"""
import itertools
import math

import numpy as np
from hypothesis import strategies as st

OFFSETS = {32: (-1, -1), 64: (-1, 0), 128: (-1, 1),
           16: (0, -1), 1: (0, 1),
           8: (1, -1), 4: (1, 0), 2: (1, 1)}
CODES8 = [1, 2, 4, 8, 16, 32, 64, 128]
ALPHABET = [0, 1, 2, 4, 8, 16, 32, 64, 128, 3]     # 3 = invalid code
# other invalid codes: combinations, byte range ends, values whose low byte
# or absolute value is a direction code, no-data style values
INVALID = [3, 5, 255, 256, 257, 258, 260, 384, 513, -128, -1, -4, -9999,
           1000, 2**31 - 1, -2**31, 65536 + 4, -2, -8, -16, -32, -64, 512,
           1024, 2**30]
INVALID64 = [2**32 + 16, 2**32 + 1, 2**33 + 4, 2**40 + 64, 2**62 + 128,
             -(2**32) + 2, 2**32, 2**31 + 8, 2**63 - 1, 2**40, 2**62, -2**63]


def down_model(fd):
    """fd: 2-D int array. Returns the downstream cell of every cell:
    -2 sink (code 0), -1 off grid or invalid code."""
    nr, nc = fd.shape
    out = np.empty(nr * nc, dtype=np.int64)
    for c in range(nr * nc):
        r, k = divmod(c, nc)
        code = int(fd[r, k])
        if code == 0:
            out[c] = -2
        elif code not in OFFSETS:
            out[c] = -1
        else:
            dr, dc = OFFSETS[code]
            r2, k2 = r + dr, k + dc
            if r2 < 0 or r2 >= nr or k2 < 0 or k2 >= nc:
                out[c] = -1
            else:
                out[c] = r2 * nc + k2
    return out


def chains(down):
    """For every cell the list of cells on its downstream walk (itself
    first), and whether the walk enters a cycle."""
    n = len(down)
    res, cyc = [], []
    for c in range(n):
        seen, s = [], set()
        x = c
        while x >= 0 and x not in s:
            seen.append(x)
            s.add(x)
            x = int(down[x])
        res.append(seen)
        cyc.append(x >= 0)
    return res, cyc


def on_cycle(down, c):
    x = int(down[c])
    steps = 0
    while x >= 0 and steps <= len(down):
        if x == c:
            return True
        x = int(down[x])
        steps += 1
    return False


def area_model(down, outlet, inlets):
    """Outlet plus the cells whose walk reaches the outlet without passing
    through an inlet (inlets themselves excluded); empty when nothing
    drains to the outlet."""
    n = len(down)
    res = set()
    for c in range(n):
        if c == outlet:
            continue
        x, ok, steps = c, False, 0
        while x >= 0 and steps <= n:
            if x == outlet:
                ok = True
                break
            if x in inlets:
                break
            x = int(down[x])
            steps += 1
        if ok:
            res.add(c)
    if res:
        res.add(outlet)
    return res


def holes(nr, nc, area, diagonal):
    """Cells outside `area` that cannot reach the outside of the grid
    through cells outside `area` (4-moves, or 8-moves when diagonal)."""
    area = set(area)
    moves = [(-1, 0), (1, 0), (0, -1), (0, 1)]
    if diagonal:
        moves += [(-1, -1), (-1, 1), (1, -1), (1, 1)]
    # pad the grid with one ring of outside cells and flood from it
    seen = set()
    stack = [(r, k) for r in range(-1, nr + 1) for k in (-1, nc)] + \
        [(r, k) for k in range(-1, nc + 1) for r in (-1, nr)]
    seen.update(stack)
    while stack:
        r, k = stack.pop()
        for dr, dk in moves:
            r2, k2 = r + dr, k + dk
            if -1 <= r2 <= nr and -1 <= k2 <= nc and (r2, k2) not in seen:
                if 0 <= r2 < nr and 0 <= k2 < nc and r2 * nc + k2 in area:
                    continue
                seen.add((r2, k2))
                stack.append((r2, k2))
    return {r * nc + k for r in range(nr) for k in range(nc)
            if r * nc + k not in area and (r, k) not in seen}


def step_length(nc, a, b):
    r1, k1 = divmod(a, nc)
    r2, k2 = divmod(b, nc)
    return 1.0 if (r1 == r2 or k1 == k2) else math.sqrt(2.0)


# ------------------------------------------------------------ enumeration
SHAPES_QUICK = [(1, 1), (1, 2), (2, 1), (1, 3), (3, 1), (2, 2)]
SHAPES_THOROUGH = [(2, 3), (3, 2), (1, 4), (4, 1)]


def enum_grids(shapes, alphabet=ALPHABET):
    for nr, nc in shapes:
        for vals in itertools.product(alphabet, repeat=nr * nc):
            yield {"shape": [nr, nc], "fd": list(vals)}


# ------------------------------------------------------------ random grids
@st.composite
def random_grid(draw, maxdim=12, kinds=("uniform", "forest", "forest",
                                        "majority"), wide=False):
    nr = draw(st.integers(1, maxdim))
    nc = draw(st.integers(1, maxdim))
    kind = draw(st.sampled_from(list(kinds)))
    n = nr * nc
    if kind == "uniform":
        fd = draw(st.lists(st.sampled_from(ALPHABET[:9]), min_size=n,
                           max_size=n))
    else:
        # acyclic by construction: every cell flows to a neighbour of lower
        # priority (or leaves the grid / is a sink)
        prio = draw(st.permutations(list(range(n))))
        choice = draw(st.lists(st.integers(0, 7), min_size=n, max_size=n))
        major = draw(st.sampled_from(CODES8))
        fd = []
        for c in range(n):
            r, k = divmod(c, nc)
            cands, exits = [], []
            for code in CODES8:
                dr, dc = OFFSETS[code]
                r2, k2 = r + dr, k + dc
                if 0 <= r2 < nr and 0 <= k2 < nc:
                    if prio[r2 * nc + k2] < prio[c]:
                        cands.append(code)
                else:
                    exits.append(code)
            if kind == "majority" and (major in cands or major in exits) \
                    and choice[c] < 6:
                fd.append(major)
            elif cands:
                fd.append(cands[choice[c] % len(cands)])
            elif exits and choice[c] % 2 == 0:
                fd.append(exits[choice[c] % len(exits)])
            else:
                fd.append(0)
    # a few cells overwritten with other invalid codes (terminal cells);
    # `wide` adds codes beyond 32 bits whose low bytes / words are direction
    # codes (only for grids stored as int64)
    if draw(st.integers(0, 3)) == 0:
        fd = list(fd)
        pool = INVALID + (INVALID64 if wide else [])
        for _ in range(draw(st.integers(1, 3))):
            fd[draw(st.integers(0, n - 1))] = draw(st.sampled_from(pool))
        kind = kind + "+invalid-codes"
    return {"shape": [nr, nc], "fd": fd, "kind": kind}


@st.composite
def serpentine_grid(draw, maxdim=9):
    """One channel winding through every cell of the grid (boustrophedon by
    rows or by columns, optionally reversed): the longest flow path has
    nrows*ncols - 1 steps, far more than the grid perimeter."""
    nr, nc = draw(st.integers(2, maxdim)), draw(st.integers(2, maxdim))
    by_rows = draw(st.booleans())
    path = []
    if by_rows:
        for r in range(nr):
            ks = range(nc) if r % 2 == 0 else range(nc - 1, -1, -1)
            path.extend((r, k) for k in ks)
    else:
        for k in range(nc):
            rs = range(nr) if k % 2 == 0 else range(nr - 1, -1, -1)
            path.extend((r, k) for r in rs)
    if draw(st.booleans()):
        path = path[::-1]
    inv = {v: k for k, v in OFFSETS.items()}
    fd = [0] * (nr * nc)
    for (r, k), (r2, k2) in zip(path[:-1], path[1:]):
        fd[r * nc + k] = inv[(r2 - r, k2 - k)]
    end = path[-1]
    fd[end[0] * nc + end[1]] = draw(st.sampled_from([0, 0, 3]))
    return {"shape": [nr, nc], "fd": fd, "kind": "serpentine",
            "pit": end[0] * nc + end[1]}


def fd_array(case):
    nr, nc = case["shape"]
    return np.array(case["fd"], dtype=np.int64).reshape(nr, nc)
