"""C15 - point-in-polygon agrees with the even-odd rule."""
import math
from fractions import Fraction as Fr

import numpy as np
from hypothesis import strategies as st

from vf.core import Sub, Violation, Skip
from hydrodiy.gis import gutils
from hydrodiy.gis.grid import Grid

PROPERTY = "C15"
RULE = ("Hypothesis-generated polygons of 3..12 vertices (thorough up to "
        "40): integer-lattice polygons in [-4,4]^2 (horizontal, vertical, "
        "collinear edges, repeated vertices, self-intersections), random "
        "normal coordinates, star-shaped; optionally closed, any rotation of "
        "the vertex list, either orientation. Query points: lattice and "
        "half-lattice points (level with vertices), random points inside and "
        "outside the bounding box. Oracle: exact crossing number with "
        "fractions.Fraction on the float coordinates; points closer than "
        "1e-6*size to the boundary are not judged (counted). Metamorphic: "
        "rotating/reversing/closing the vertex list, translating by dyadic "
        "offsets (up to 2^34: polygons far from the origin) and scaling by "
        "powers of two never change the answer, nor does storing a lattice "
        "polygon (and whole-number points) as uint8/16/32/64, int8 or int16; "
        "cells_inside_polygon returns exactly the cells whose centre the "
        "oracle puts inside, also after the grid was moved / rescaled in "
        "place and on a relocated clone; grids of more than a million cells against analytic "
        "rectangles. Non-trivial = a judged point level with a "
        "vertex, or a non-convex / self-intersecting polygon.")


def inside_exact(pt, poly):
    x, y = Fr(pt[0]), Fr(pt[1])
    n = len(poly)
    c = False
    for i in range(n):
        x1, y1 = Fr(poly[i][0]), Fr(poly[i][1])
        x2, y2 = Fr(poly[(i + 1) % n][0]), Fr(poly[(i + 1) % n][1])
        if (y1 > y) != (y2 > y):
            xi = x1 + (y - y1) * (x2 - x1) / (y2 - y1)
            if xi > x:
                c = not c
    return c


def dist_boundary(pt, poly):
    x, y = pt
    n = len(poly)
    dmin = math.inf
    for i in range(n):
        x1, y1 = poly[i]
        x2, y2 = poly[(i + 1) % n]
        dx, dy = x2 - x1, y2 - y1
        L = dx * dx + dy * dy
        t = 0 if L == 0 else max(0, min(1, ((x - x1) * dx + (y - y1) * dy)
                                         / L))
        dmin = min(dmin, math.hypot(x - (x1 + t * dx), y - (y1 + t * dy)))
    return dmin


def is_convex(poly):
    n = len(poly)
    sign = 0
    for i in range(n):
        a, b, c = poly[i], poly[(i + 1) % n], poly[(i + 2) % n]
        cr = (b[0] - a[0]) * (c[1] - b[1]) - (b[1] - a[1]) * (c[0] - b[0])
        if cr != 0:
            if sign == 0:
                sign = 1 if cr > 0 else -1
            elif (cr > 0) != (sign > 0):
                return False
    return True


@st.composite
def cases(draw, tier):
    big = tier == "thorough" and draw(st.integers(0, 9)) == 0
    nv = draw(st.integers(3, 40 if big else 12))
    kind = draw(st.sampled_from(["lattice", "lattice", "normal", "star"]))
    if kind == "lattice":
        poly = [[float(draw(st.integers(-4, 4))),
                 float(draw(st.integers(-4, 4)))] for _ in range(nv)]
        pts = [[draw(st.integers(-10, 10)) / 2., draw(st.integers(-10, 10))
                / 2.] for _ in range(40)]
    elif kind == "normal":
        fl = st.floats(-9., 9., allow_nan=False)
        poly = [[draw(fl), draw(fl)] for _ in range(nv)]
        pts = [[draw(fl), draw(fl)] for _ in range(30)]
        # points level with vertices
        for _ in range(10):
            pts.append([draw(fl), poly[draw(st.integers(0, nv - 1))][1]])
    else:
        ang = sorted(draw(st.floats(0., 2 * math.pi, allow_nan=False))
                     for _ in range(nv))
        poly = [[(1 + 3 * draw(st.floats(0., 1.))) * math.cos(a),
                 (1 + 3 * draw(st.floats(0., 1.))) * math.sin(a)]
                for a in ang]
        fl = st.floats(-5., 5., allow_nan=False)
        pts = [[draw(fl), draw(fl)] for _ in range(40)]
    return {"poly": poly, "pts": pts, "kind": kind,
            "close": draw(st.booleans()),
            "rot": draw(st.integers(0, nv - 1)),
            "rev": draw(st.booleans()),
            "opts": draw(st.sampled_from([{}, {}, {"atol": 0.},
                                          {"atol": 1e-12}, {"nprint": 1},
                                          {"nprint": 7, "atol": 1e-10}])),
            # dyadic offsets up to 2^26 (UTM-like: the polygon is tiny
            # compared with its distance to the origin)
            "shift": [draw(st.sampled_from([0., 1., -8., 0.5, 1024.,
                                            2.0**20, 2.0**26, -2.0**24,
                                            2.0**30, -2.0**34])),
                      draw(st.sampled_from([0., -1., 16., 0.25, 2.0**22,
                                            -2.0**26, 2.0**26, -2.0**30,
                                            2.0**34]))],
            "scale": draw(st.sampled_from([1., 2., 0.5, 1024., 2.0**-10])),
            "grid": [draw(st.integers(1, 8)), draw(st.integers(1, 8)),
                     draw(st.sampled_from([1., 0.5, 2.])),
                     draw(st.sampled_from([-4.25, -5., -3.75])),
                     draw(st.sampled_from([-4.25, -5., -3.75]))],
            # the grid is moved / rescaled in place, and a clone of it is
            # relocated, between two queries
            "cont": [draw(st.sampled_from(["f64", "f64", "strided", "f32",
                                           "int"])),
                     draw(st.sampled_from(["f64", "f64", "strided", "f32",
                                           "int"]))],
            "regeo": [draw(st.sampled_from([0., 1., -2.5, 0.75])),
                      draw(st.sampled_from([0., -1., 3.25, 0.5])),
                      draw(st.sampled_from([1., 1., 2., 0.5]))]}


OPTS = {}


CONT = {"pts": "f64", "poly": "f64"}


def as_container(a, how):
    """The same coordinates as a row-strided view, float32 or integer array
    (only when that represents them exactly)."""
    a = np.ascontiguousarray(a, dtype=np.float64)
    if how == "strided" and len(a):
        big = np.zeros((2 * len(a), 2))
        big[::2] = a
        return big[::2]
    if how == "f32" and np.array_equal(a, a.astype(np.float32)):
        return a.astype(np.float32)
    if how == "int" and np.array_equal(a, np.round(a)) \
            and np.all(np.abs(a) < 2**40):
        return a.astype(np.int64)
    return a


def call(pts, poly):
    return gutils.points_inside_polygon(
        as_container(pts, CONT["pts"]), as_container(poly, CONT["poly"]),
        **OPTS).astype(bool)


def oracle(case):
    poly = [list(map(float, p)) for p in case["poly"]]
    pts = [list(map(float, p)) for p in case["pts"]]
    size = max(max(abs(c) for p in poly for c in p), 1e-3)
    # degenerate polygon (all vertices on a line): nothing to judge
    labels = [f"kind:{case['kind']}"]
    P = np.array(poly)
    Q = np.array(pts)
    # options that do not change the rule away from the boundary
    OPTS.clear()
    OPTS.update(case.get("opts", {}))
    CONT["pts"], CONT["poly"] = case.get("cont", ["f64", "f64"])
    labels.append(f"containers:{CONT['pts']}/{CONT['poly']}")
    if OPTS:
        labels.append("options:" + ",".join(sorted(OPTS)))
    if case["close"]:
        Pc = np.vstack([P, P[:1]])
        labels.append("closed")
    else:
        Pc = P
    res = call(Q, Pc)
    judged = []
    nt = not is_convex(poly)
    vy = set(p[1] for p in poly)
    for k, (p, r) in enumerate(zip(pts, res)):
        if dist_boundary(p, poly) < 1e-6 * size:
            labels.append("point:near-boundary-not-judged")
            continue
        judged.append(k)
        e = inside_exact(p, poly)
        if bool(r) != e:
            raise Violation(
                f"point {p} is {'inside' if e else 'outside'} by the "
                f"even-odd rule but points_inside_polygon returns {int(r)}; "
                f"polygon {poly}{' (closed)' if case['close'] else ''}")
        if p[1] in vy:
            nt = True
            labels.append("point:level-with-vertex")
    # the documented reuse of the answer vector: a recycled buffer holding
    # stale values gives the same answers
    buf = np.ones(len(Q), dtype=np.int32)
    r_buf = gutils.points_inside_polygon(
        np.ascontiguousarray(Q), np.ascontiguousarray(Pc), inside=buf,
        **OPTS)
    if not np.array_equal(np.asarray(r_buf).astype(bool), res):
        k = int(np.argmax(np.asarray(r_buf).astype(bool) != res))
        raise Violation(
            f"passing a recycled `inside` vector changes the answer for "
            f"point {pts[k]}: {int(res[k])} -> {int(r_buf[k])}; polygon "
            f"{poly}")
    # the same point and polygon objects edited in place, then used again
    Q2 = np.ascontiguousarray(Q.copy())
    P2 = np.ascontiguousarray(Pc.copy())
    r_a = gutils.points_inside_polygon(Q2, P2, **OPTS)
    Q2 += 0.5
    P2 += 0.5
    r_b = gutils.points_inside_polygon(Q2, P2, **OPTS).astype(bool)
    if case["kind"] == "lattice" and judged and \
            not np.array_equal(r_b[judged], res[judged]):
        k = judged[int(np.argmax(r_b[judged] != res[judged]))]
        raise Violation(f"second call after the point and polygon arrays "
                        f"were shifted in place changes the answer for "
                        f"point {pts[k]}")
    if not judged:
        return {"nt": False, "labels": labels}
    J = np.array(judged)
    # metamorphic relations on the judged points
    rot = case["rot"]
    variants = {
        "rotating the vertex list": np.roll(P, rot, axis=0),
        "reversing the vertex list": P[::-1].copy(),
        "closing/opening the polygon": P if case["close"]
        else np.vstack([P, P[:1]]),
    }
    for what, PV in variants.items():
        r2 = call(Q, PV)
        if not np.array_equal(r2[J], res[J]):
            k = J[np.argmax(r2[J] != res[J])]
            raise Violation(f"{what} changes the answer for point "
                            f"{pts[k]}: {int(res[k])} -> {int(r2[k])}; "
                            f"polygon {poly}")
    sh = np.array(case["shift"])
    sc = case["scale"]
    if case["kind"] == "lattice":
        # exact in floating point for lattice coordinates
        r3 = call((Q + sh) * sc, (Pc + sh) * sc)
        if not np.array_equal(r3[J], res[J]):
            k = J[np.argmax(r3[J] != res[J])]
            raise Violation(f"translating by {sh.tolist()} and scaling by "
                            f"{sc} changes the answer for point {pts[k]}; "
                            f"polygon {poly}")
        labels.append("shift+scale")
        # the same outline stored as unsigned / narrow signed whole numbers
        # (pixel coordinates), the points as floats or in the same type
        whole = [k for k in judged if Q[k, 0] == round(Q[k, 0])
                 and Q[k, 1] == round(Q[k, 1])]
        for mult, off, dt in [(1, 4, np.uint8), (1, 4, np.uint16),
                              (1, 5, np.uint32), (1, 4, np.uint64),
                              (25, 0, np.int8), (8000, 0, np.int16),
                              (1, 0, np.int8), (30, 124, np.uint8)][
                                  case["rot"] % 2::2]:
            PV = (Pc * mult + off).astype(dt)
            r4 = gutils.points_inside_polygon(
                np.ascontiguousarray(Q * mult + off), PV, **OPTS).astype(bool)
            if not np.array_equal(r4[J], res[J]):
                k = J[np.argmax(r4[J] != res[J])]
                raise Violation(
                    f"polygon given as {np.dtype(dt).name} array "
                    f"{PV.tolist()} changes the answer for point "
                    f"{(Q[k] * mult + off).tolist()}: {int(res[k])} -> "
                    f"{int(r4[k])}")
            if whole and (Q[whole] * mult + off).min() >= np.iinfo(dt).min \
                    and (Q[whole] * mult + off).max() <= np.iinfo(dt).max:
                W = np.array(whole)
                r5 = gutils.points_inside_polygon(
                    (Q[W] * mult + off).astype(dt), PV, **OPTS).astype(bool)
                if not np.array_equal(r5, res[W]):
                    k = W[np.argmax(r5 != res[W])]
                    raise Violation(
                        f"points and polygon given as {np.dtype(dt).name} "
                        f"arrays: answer for point "
                        f"{(Q[k] * mult + off).tolist()} changes "
                        f"{int(res[k])} -> {int(r5[k])}; polygon "
                        f"{PV.tolist()}")
        labels.append("whole-number-dtypes")

    # cells_inside_polygon
    ncols, nrows, csz, xll, yll = case["grid"]
    g = Grid("g", ncols, nrows, cellsize=csz, xllcorner=xll, yllcorner=yll)

    def check_grid(g, what):
        df = g.cells_inside_polygon(Pc)
        nr_, nc_ = g.nrows, g.ncols
        k = np.arange(nr_ * nc_)
        # cell centres written out from the georeferencing
        centres = np.column_stack([
            g.xllcorner + (k % nc_ + 0.5) * g.cellsize,
            g.yllcorner + (nr_ - 1 - k // nc_ + 0.5) * g.cellsize])
        got = set(int(c) for c in df["cell"].values)
        for c, xy in enumerate(centres):
            if dist_boundary(xy, poly) < 1e-6 * size:
                continue
            e = inside_exact(xy, poly)
            if e != (c in got):
                raise Violation(
                    f"cells_inside_polygon{what}: cell {c} centre "
                    f"{xy.tolist()} is {'inside' if e else 'outside'} by "
                    f"the even-odd rule but "
                    f"{'listed' if c in got else 'not listed'}; polygon "
                    f"{poly}")
        if len(df) and (not np.array_equal(
                centres[df["cell"].values], df[["x", "y"]].values)):
            raise Violation(f"cells_inside_polygon{what}: x, y differ from "
                            "the cell centres")

    check_grid(g, "")
    dx, dy, fac = case.get("regeo", [0., 0., 1.])
    if (dx, dy, fac) != (0., 0., 1.):
        g2 = g.clone()
        g2.xllcorner = xll - dx
        g2.yllcorner = yll + dy
        check_grid(g2, " (relocated clone of a grid already queried)")
        g.xllcorner = xll + dx
        g.yllcorner = yll - dy
        g.cellsize = csz * fac
        check_grid(g, " (second query after the grid was moved / rescaled "
                   f"in place by {dx}, {-dy}, x{fac})")
        labels.append("geometry-edited-between-queries")
    if not nt:
        pass
    else:
        labels.append("nonconvex-or-level")
    return {"nt": nt, "labels": sorted(set(labels))}


def enum_large(tier):
    shapes = [(1200, 1000), (1001, 1000)] if tier == "quick" else \
        [(1200, 1000), (1001, 1000), (1000, 1000), (999, 1001), (2, 600000),
         (1500, 1400)]
    for nr, nc in shapes:
        for k in range(2 if tier == "quick" else 4):
            yield {"nrows": nr, "ncols": nc, "k": k}


def large_oracle(case):
    """cells_inside_polygon on grids of more than a million cells against
    the analytic answer for axis-aligned rectangles whose edges lie a
    quarter of a cell away from the cell centres."""
    nr, nc, k = case["nrows"], case["ncols"], case["k"]
    g = Grid("big", nc, nr, cellsize=1., xllcorner=0., yllcorner=0.)
    # rectangle in cell units: [c0, c1) x [r0, r1) counted from the bottom
    c0, c1 = [(0, nc), (nc // 3, nc - 2), (1, 2), (nc // 2, nc)][k]
    r0, r1 = [(0, nr), (1, nr // 2), (0, nr), (0, min(3, nr))][k]
    poly = np.array([[c0 - 0.25, r0 - 0.25], [c1 - 0.75, r0 - 0.25],
                     [c1 - 0.75, r1 - 0.75], [c0 - 0.25, r1 - 0.75]]) + 0.5
    df = g.cells_inside_polygon(poly)
    cols = np.arange(c0, c1 - 0) if c1 - 1 >= c0 else np.zeros(0, int)
    cols = np.arange(c0, c1)[:max(0, c1 - c0)]
    cols = cols[(cols + 0.5 > poly[0, 0]) & (cols + 0.5 < poly[1, 0])]
    rows_b = np.arange(r0, r1)
    rows_b = rows_b[(rows_b + 0.5 > poly[0, 1]) & (rows_b + 0.5 < poly[2, 1])]
    exp = ((nr - 1 - rows_b)[:, None] * nc + cols[None, :]).ravel()
    got = np.sort(df["cell"].values.astype(np.int64))
    if not np.array_equal(got, np.sort(exp)):
        miss = np.setdiff1d(exp, got)
        extra = np.setdiff1d(got, exp)
        raise Violation(
            f"cells_inside_polygon on a {nr}x{nc} grid: {len(got)} cells "
            f"returned, {len(exp)} expected; {len(miss)} missing (e.g. "
            f"{miss[:3].tolist()}), {len(extra)} not inside (e.g. "
            f"{extra[:3].tolist()}); rectangle {poly.tolist()}")
    xy = g.cell2coord(df["cell"].values)
    if len(df) and not np.array_equal(xy, df[["x", "y"]].values):
        raise Violation("cells_inside_polygon x, y differ from the centres "
                        "of the listed cells")
    return {"nt": True, "labels": [f"cells:{nr * nc}"]}


def enum_manyvertices(tier):
    vs = [63, 64, 65, 127, 128, 129, 255, 256, 257, 10001, 16385] \
        if tier == "quick" else \
        [63, 64, 65, 127, 128, 129, 255, 256, 257, 511, 512, 513, 1000,
         1023, 1024, 1025, 4097, 9999, 10000, 10001, 10050, 16385, 65537]
    for v in vs:
        for shape in ("star", "zigzag"):
            yield {"v": v, "shape": shape}


def manyvertices_oracle(case):
    """Polygons of 63 .. 4097 vertices with integer coordinates (star shaped
    with alternating radii, or a zigzag band) and half-integer query points:
    exact crossing-number reference on integers."""
    v, shape = case["v"], case["shape"]
    if shape == "star":
        ang = 2 * np.pi * np.arange(v) / v
        big_r = 1000. if v < 3000 else 40. * v
        rad = np.where(np.arange(v) % 2 == 0, big_r, 0.4 * big_r)
        poly = np.round(np.column_stack([rad * np.cos(ang),
                                         rad * np.sin(ang)]))
    else:
        # band: teeth along the top, straight bottom
        k = np.arange(v - 2)
        top = np.column_stack([10. * k, np.where(k % 2 == 0, 100., 40.)])
        poly = np.vstack([top, [[10. * (v - 3), -50.], [0., -50.]]])
    rng = np.random.RandomState(v)
    lo, hi = poly.min(axis=0) - 20, poly.max(axis=0) + 20
    pts = np.column_stack([rng.randint(lo[0], hi[0], size=400),
                           rng.randint(lo[1], hi[1], size=400)]) + 0.5
    got = call(pts, poly)
    # even-odd rule in exact integer arithmetic (coordinates doubled)
    X, Y = (2 * pts[:, 0]).astype(np.int64), (2 * pts[:, 1]).astype(np.int64)
    px, py = (2 * poly[:, 0]).astype(np.int64), \
        (2 * poly[:, 1]).astype(np.int64)
    inside = np.zeros(len(pts), dtype=bool)
    onedge = np.zeros(len(pts), dtype=bool)
    for i in range(v):
        x1, y1, x2, y2 = px[i], py[i], px[(i + 1) % v], py[(i + 1) % v]
        if y1 == y2:
            continue
        cond = (y1 > Y) != (y2 > Y)
        # x of the crossing > X  <=>  (x1 - X)*(y2 - y1) + (Y - y1)*(x2 - x1)
        # has the sign of (y2 - y1)
        num = (x1 - X) * (y2 - y1) + (Y - y1) * (x2 - x1)
        right = np.where(y2 > y1, num > 0, num < 0)
        inside ^= cond & right
        onedge |= cond & (num == 0)
    # (a point exactly on an edge is not judged; any other point is at least
    # 1/(2*edge length) > 1e-4 away from every edge)
    got, inside, pts = got[~onedge], inside[~onedge], pts[~onedge]
    if not np.array_equal(got, inside):
        k = int(np.argmax(got != inside))
        raise Violation(
            f"{shape} polygon of {v} vertices: point {pts[k].tolist()} is "
            f"{'inside' if inside[k] else 'outside'} by the even-odd rule "
            f"but points_inside_polygon returns {int(got[k])} "
            f"({int((got != inside).sum())} of {len(pts)} points differ)")
    return {"nt": True, "labels": [f"vertices:{v}", f"shape:{shape}",
                                   f"inside:{int(inside.sum())}"]}


SUBS = [
    Sub("C15.many-vertices", manyvertices_oracle, enumerate=enum_manyvertices,
        shards=(6, 12)),
    Sub("C15.large-grids", large_oracle, enumerate=enum_large,
        shards=(4, 16)),
    Sub("C15.even-odd", oracle, strategy=cases, n=(400, 6000),
        shards=(16, 16)),
]
