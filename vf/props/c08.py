"""C08 - aggregation / disaggregation reduce by group and conserve totals."""
import calendar
import math

import numpy as np
import pandas as pd
from hypothesis import strategies as st

from vf.core import Sub, Violation, Skip
from hydrodiy.data import dutils
from hydrodiy.data.signatures import goue
from hydrodiy.stat import metrics

PROPERTY = "C08"
RULE = ("(sizes sub-check: series of 255..1025 (thorough 127..65537) values in "
        "groups of 1, 7, n/2 and n values, all operators.) " +
        "(a) Hypothesis: aggregation index built from run lengths (constant, "
        "strictly increasing, runs of random length) offset by -2^31, 0 or "
        "2^31-40-ish, length 1..60 (thorough up to 5000); inputs normal*10 / "
        "all negative / zeros with NaN placed per group so that leading, "
        "trailing and whole-group NaN occur; operator 0..3; maxnan 0..group "
        "length+1; decreasing index = a valid one with one element lowered. "
        "Oracle: group model from np.unique (sum / mean / max / last "
        "non-missing, NaN when > maxnan missing), total conservation, "
        "flathomogen group mean / NaN pattern / group totals, goue = nse of "
        "flat series, ValueError on decreasing index. (b) monthly2daily: "
        "month-start series of 2..300 months starting in any month of "
        "1890..2110, non-negative values, flat and cubic; oracle: exact "
        "calendar-day index, per-month sums equal the monthly input. "
        "Non-trivial = a group with NaN in last position, or an all-negative "
        "group, or maxnan > 0, or a leap-year February in range.")

I32MIN = -2**31


@st.composite
def agg_case(draw, tier):
    big = tier == "thorough" and draw(st.integers(0, 19)) == 0
    ngroups = draw(st.integers(1, 400 if big else 12))
    style = draw(st.sampled_from(["runs", "runs", "constant", "strict"]))
    if style == "constant":
        runs = [draw(st.integers(1, 60))]
    elif style == "strict":
        runs = [1] * ngroups
    else:
        runs = [draw(st.integers(1, 12 if big else 8))
                for _ in range(ngroups)]
    gaps = [draw(st.integers(1, 5)) for _ in runs]
    offset = draw(st.sampled_from([0, 0, 199501, I32MIN,
                                   2**31 - 1 - sum(gaps) - 1, -7]))
    # group index values spread over the whole int32 range: consecutive
    # values further apart than 2^31 (differences overflow int32)
    spread = None
    if len(runs) <= 7 and draw(st.integers(0, 5)) == 0:
        pool = [I32MIN, -2000000000, -5, 0, 7, 2000000000, 2**31 - 1]
        spread = sorted(draw(st.lists(st.sampled_from(pool),
                                      min_size=len(runs), max_size=len(runs),
                                      unique=True)))
    regime = draw(st.sampled_from(["normal", "negative", "zeros", "normal"]))
    vals, nanmask = [], []
    for r in runs:
        pat = draw(st.sampled_from(["none", "none", "last", "first", "all",
                                    "random", "random"]))
        for k in range(r):
            if regime == "normal":
                v = draw(st.floats(-40., 40., allow_nan=False))
            elif regime == "negative":
                v = -draw(st.floats(0.001, 40., allow_nan=False))
            else:
                v = 0.0
            vals.append(v)
            isn = (pat == "all" or (pat == "last" and k == r - 1)
                   or (pat == "first" and k == 0)
                   or (pat == "random" and draw(st.integers(0, 3)) == 0))
            nanmask.append(isn)
    n = len(vals)
    # groups of very different magnitude next to each other (each group is
    # judged relative to its own inputs)
    gscale = None
    if regime != "zeros" and draw(st.integers(0, 2)) == 0:
        gscale = [draw(st.sampled_from([1., 1., 1e16, 1e-9, 1e9, 1e-12, 1e-3,
                                        2.**60, 1e150]))
                  for _ in runs]
    return {"runs": runs, "gaps": gaps, "offset": offset, "spread": spread,
            "vals": vals, "gscale": gscale,
            "nan": nanmask, "op": draw(st.integers(0, 3)),
            "maxnan": draw(st.integers(0, max(runs) + 1)),
            "drop_at": draw(st.integers(0, n - 1)),
            "regime": regime,
            # which of the two kernels of the module is used first (the
            # first case of a worker is the first use in that process)
            "flat_first": draw(st.booleans()),
            "icont": draw(st.sampled_from(["int64", "int64", "int32", "list",
                                           "series", "strided", "int16",
                                           "uint32", "uint8"]))}


def build(case):
    idx = []
    cur = case["offset"]
    for k, (r, g) in enumerate(zip(case["runs"], case["gaps"])):
        if case.get("spread"):
            cur = case["spread"][k]
        idx.extend([cur] * r)
        cur += g
    idx = np.array(idx, dtype=np.int64)
    x = np.array(case["vals"], dtype=np.float64)
    if case.get("gscale"):
        x = x * np.repeat(np.array(case["gscale"]), case["runs"])
    x[np.array(case["nan"], dtype=bool)] = np.nan
    return idx, x


def agg_oracle(case):
    idx, x = build(case)
    op, maxnan = case["op"], case["maxnan"]
    labels = [f"op:{op}", f"regime:{case['regime']}"]
    if case.get("gscale") and len(set(case["gscale"])) > 1:
        labels.append("groups-of-different-magnitude")
    if idx.min() < I32MIN or idx.max() > 2**31 - 1:
        raise Skip()
    # the index passed as int64 / int32 array, list, pandas object or view
    ic = case.get("icont", "int64")
    if ic == "int32":
        idx_in = idx.astype(np.int32)
    elif ic in ("int16", "uint32", "uint8"):
        # (month / year numbers stored in a narrow or unsigned type)
        if idx.min() >= np.iinfo(ic).min and idx.max() <= np.iinfo(ic).max:
            idx_in = idx.astype(ic)
        else:
            ic, idx_in = "int64", idx
    elif ic == "list":
        idx_in = [int(i) for i in idx]
    elif ic == "series":
        idx_in = pd.Series(idx)
    elif ic == "strided":
        big = np.zeros(2 * len(idx), dtype=np.int64)
        big[::2] = idx
        idx_in = big[::2]
    else:
        idx_in = idx
    labels.append(f"index-container:{ic}")
    flat_pre = None
    if case.get("flat_first"):
        flat_pre = dutils.flathomogen(idx_in, x.copy(), maxnan)
        labels.append("flathomogen-before-aggregate")
    out = dutils.aggregate(idx_in, x.copy(), op, maxnan)
    groups = np.unique(idx)
    if len(out) != len(groups):
        raise Violation(f"aggregate returns {len(out)} values for "
                        f"{len(groups)} distinct index values")
    nt = maxnan > 0
    anyinvalid = False
    for k, gidx in enumerate(groups):
        xs = x[idx == gidx]
        valid = xs[~np.isnan(xs)]
        nnan = len(xs) - len(valid)
        if np.isnan(xs[-1]):
            nt = True
            labels.append("group:nan-last")
        if len(valid) and np.all(valid < 0):
            nt = True
            labels.append("group:all-negative")
        if nnan > maxnan:
            anyinvalid = True
            if not np.isnan(out[k]):
                raise Violation(
                    f"group {k} has {nnan} > maxnan={maxnan} missing values "
                    f"but aggregate(op={op}) returns {out[k]!r}")
            continue
        if len(valid) == 0:
            labels.append("group:all-missing-accepted")
            if op == 0 and out[k] != 0:
                raise Violation(f"sum of an all-missing group = {out[k]!r}")
            continue
        exp = [valid.sum(), valid.mean(), valid.max(), valid[-1]][op]
        # (relative to the group's own inputs; float64 has no relative
        # precision below its smallest normal number, hence the floor)
        if not abs(out[k] - exp) <= 1e-12 * np.abs(valid).sum() \
                + 5e-324 * 4 * len(valid):
            raise Violation(
                f"aggregate(op={op}, maxnan={maxnan}) group {k} "
                f"{xs.tolist()} -> {out[k]!r}, expected {exp!r}")
    if op == 0 and not anyinvalid:
        tot = np.nansum(x)
        if not abs(np.sum(out) - tot) <= 1e-9 * max(1., np.nansum(np.abs(x))):
            raise Violation(f"aggregated sums add up to {np.sum(out)!r}, "
                            f"inputs to {tot!r}")

    # ---- flat homogenisation
    flat = dutils.flathomogen(idx_in, x.copy(), maxnan)
    if flat_pre is not None:
        if not np.array_equal(flat_pre, flat, equal_nan=True):
            raise Violation(
                "flathomogen called before / after aggregate gives different "
                f"results: {flat_pre.tolist()[:12]} vs {flat.tolist()[:12]}")
        flat = flat_pre
    if flat.shape != x.shape:
        raise Violation(f"flathomogen shape {flat.shape}")
    for k, gidx in enumerate(groups):
        sel = idx == gidx
        xs, fs = x[sel], flat[sel]
        nn = np.isnan(xs)
        if not np.all(np.isnan(fs[nn])):
            raise Violation("flathomogen fills a missing entry")
        if nn.sum() > maxnan:
            if not np.all(np.isnan(fs)):
                raise Violation(
                    f"group {k} has {nn.sum()} > maxnan={maxnan} missing "
                    f"values but flathomogen returns {fs.tolist()}")
            continue
        if (~nn).sum() == 0:
            continue
        m = xs[~nn].mean()
        sc = 1e-12 * np.abs(xs[~nn]).sum() + 5e-324 * 4 * len(xs)
        if not np.all(np.abs(fs[~nn] - m) <= sc):
            raise Violation(f"flathomogen group {k} {xs.tolist()} -> "
                            f"{fs.tolist()}, expected mean {m!r}")
        if not abs(fs[~nn].sum() - xs[~nn].sum()) <= sc:
            raise Violation("flathomogen does not preserve the group total")

    # ---- same index object edited in place, then used again
    new = idx + np.arange(len(idx)) // 2 + 1       # other grouping
    if isinstance(idx_in, (np.ndarray, list)) and len(groups) >= 1 \
            and idx.max() < 2**31 - 1 - 7 and (
                isinstance(idx_in, list)
                or new.max() <= np.iinfo(idx_in.dtype).max):
        for i, v in enumerate(new):
            idx_in[i] = int(v)
        out2 = dutils.aggregate(idx_in, x.copy(), 0, len(x))
        g2 = np.unique(new)
        exp2 = np.array([np.nansum(x[new == g]) for g in g2])
        if len(out2) != len(g2) or not np.allclose(
                out2, exp2, atol=1e-9 * max(1., np.nansum(np.abs(x))),
                rtol=0):
            raise Violation(
                f"aggregate called again after the index object was edited "
                f"in place: {out2.tolist()[:8]}, expected "
                f"{exp2.tolist()[:8]} for index {new.tolist()[:12]}")
        f2 = dutils.flathomogen(idx_in, x.copy(), len(x))
        for g in g2:
            sel = (new == g) & ~np.isnan(x)
            if sel.any() and not np.allclose(f2[sel], x[sel].mean(),
                                             atol=1e-9 * max(1., np.abs(
                                                 x[sel]).sum()), rtol=0):
                raise Violation("flathomogen called again after the index "
                                "object was edited in place uses the old "
                                "index")
        labels.append("index-edited-in-place")

    # ---- goue = nse(values, flat) for complete data
    if not np.isnan(x).any() and len(groups) < len(x) and np.std(x) > 1e-6:
        f0 = dutils.flathomogen(idx, x.copy())
        g = goue(idx, x.copy())
        e = metrics.nse(x, f0)
        if not abs(g - e) <= 1e-9 * max(1., abs(e)):
            raise Violation(f"goue {g!r} != nse(values, flat) {e!r}")
        ref = 1 - np.sum((f0 - x)**2) / np.sum((x - x.mean())**2)
        if not abs(g - ref) <= 1e-9 * max(1., abs(ref)):
            raise Violation(f"goue {g!r} != definition {ref!r}")
        labels.append("goue")

    # ---- decreasing index rejected
    if len(groups) >= 2 and not case.get("spread"):
        p = case["drop_at"]
        bad = idx.copy()
        # lower one element below its predecessor
        p = max(1, p)
        if bad[p - 1] > I32MIN:
            bad[p] = bad[p - 1] - 1
            for fn, args in ((dutils.aggregate, (bad, x.copy(), op, maxnan)),
                             (dutils.flathomogen, (bad, x.copy(), maxnan))):
                try:
                    r = fn(*args)
                except ValueError:
                    continue
                raise Violation(f"{fn.__name__} accepted a decreasing index "
                                f"{bad.tolist()[:20]} -> {r.tolist()[:10]}")
            labels.append("decreasing-rejected")
    # ---- a single stray entry inside a run of equal index values (a dip, or
    # a spike followed by the return to the run's value) is a decrease too
    idx = build(case)[0]        # (the array above was edited in place)
    if not case.get("spread") and I32MIN + 2 < idx.min() and \
            idx.max() < 2**31 - 3:
        start = 0
        strays = []
        for r in case["runs"]:
            if r >= 3:
                for pos in sorted({start + 1, start + r // 2, start + r - 2}):
                    strays.append(pos)
            start += r
        sel = [strays[(case["drop_at"] + 7 * k) % len(strays)]
               for k in range(min(4, len(strays)))] if strays else []
        for pos in sel:
            for delta in (-1, 1):
                bad = idx.copy()
                bad[pos] += delta
                for fn, args in ((dutils.aggregate,
                                  (bad, x.copy(), op, maxnan)),
                                 (dutils.flathomogen,
                                  (bad, x.copy(), maxnan))):
                    try:
                        r_ = fn(*args)
                    except ValueError:
                        continue
                    raise Violation(
                        f"{fn.__name__} accepted an index that decreases "
                        f"at position {pos + (1 if delta > 0 else 0)}: a run "
                        f"of {int(idx[pos])} with the value "
                        f"{int(bad[pos])} at position {pos} "
                        f"(length {len(idx)})")
        if sel:
            labels.append("stray-inside-run-rejected")
    if case["offset"] not in (0, 199501, -7) or case.get("spread"):
        labels.append("index:int32-extreme")
    if case.get("spread"):
        labels.append("index:steps-beyond-2^31")
    return {"nt": nt, "labels": sorted(set(labels))}


# ------------------------------------------------------------ monthly2daily
@st.composite
def m2d_case(draw, tier):
    nm = draw(st.integers(2, 300 if tier == "thorough" else 60))
    # (half of the series start just before a century or leap-year February)
    return {"year": draw(st.one_of(
                st.sampled_from([1899, 1900, 2099, 2100, 1999, 2000, 1896,
                                 2096, 1903, 2103]),
                st.integers(1890, 2110))),
            "month": draw(st.integers(1, 12)),
            "vals": draw(st.lists(st.one_of(
                st.floats(0., 500., allow_nan=False),
                st.sampled_from([0., 0., 1., 31.])),
                min_size=nm, max_size=nm)),
            "interp": draw(st.sampled_from(["flat", "cubic"])),
            # lowest valid value: default 0, or a negative one (all inputs
            # are non-negative, nothing becomes missing)
            "minthr": draw(st.sampled_from([None, None, -5.0, -1e-9])),
            # the month-start index built by date_range (it carries a freq)
            # or stamp by stamp (no freq), in s / us / ns resolution
            "index": draw(st.sampled_from(["date_range", "date_range",
                                           "stamps", "stamps-ns",
                                           "stamps-s"]))}


def m2d_oracle(case):
    start = pd.Timestamp(year=case["year"], month=case["month"], day=1)
    nm = len(case["vals"])
    index = pd.date_range(start, periods=nm, freq="MS")
    how = case.get("index", "date_range")
    if how != "date_range":
        index = pd.DatetimeIndex([pd.Timestamp(t) for t in index])
        assert index.freq is None
        if how == "stamps-ns" and 1680 < case["year"] and \
                case["year"] + nm // 12 < 2260:
            index = index.as_unit("ns")
        elif how == "stamps-s":
            index = index.as_unit("s")
    sem = pd.Series(np.array(case["vals"], dtype=np.float64), index=index)
    kw = {} if case.get("minthr") is None \
        else {"minthreshold": case["minthr"]}
    sed = dutils.monthly2daily(sem.copy(), interpolation=case["interp"],
                               **kw)
    # expected calendar days
    y, m = case["year"], case["month"]
    days = []
    leapfeb = False
    for _ in range(nm):
        nd = calendar.monthrange(y, m)[1]
        leapfeb = leapfeb or (m == 2 and nd == 29)
        days.extend((y, m, d) for d in range(1, nd + 1))
        m += 1
        if m == 13:
            y, m = y + 1, 1
    got = [(t.year, t.month, t.day) for t in sed.index]
    if got != days:
        raise Violation(
            f"monthly2daily({case['interp']}) index has {len(got)} days "
            f"from {got[:1]} to {got[-1:]}, expected {len(days)} days from "
            f"{days[0]} to {days[-1]}")
    v = sed.values.astype(np.float64)
    if np.isnan(v).any():
        raise Violation("monthly2daily returns NaN for complete "
                        "non-negative input")
    key = np.array([d[0] * 100 + d[1] for d in days])
    sums = np.array([v[key == k].sum() for k in np.unique(key)])
    exp = np.array(case["vals"])
    tol = 1e-9 * max(1., np.abs(exp).max())
    if not np.all(np.abs(sums - exp) <= tol):
        i = int(np.argmax(np.abs(sums - exp)))
        raise Violation(
            f"monthly2daily({case['interp']}) month {i}: daily values sum "
            f"to {sums[i]!r}, monthly input {exp[i]!r}")
    return {"nt": leapfeb, "labels": [f"interp:{case['interp']}",
                                      f"index:{how}"]
            + (["leap-february"] if leapfeb else [])
            + (["century-february"] if any(
                d[1] == 2 and d[0] % 100 == 0 for d in days) else [])}


# ------------------------------------------------------------ infinite values
@st.composite
def inf_case(draw, tier):
    runs = draw(st.lists(st.integers(1, 5), min_size=1, max_size=5))
    n = sum(runs)
    val = st.one_of(st.sampled_from([float("inf"), float("-inf"),
                                     float("inf"), float("nan")]),
                    st.floats(-40., 40., allow_nan=False))
    return {"runs": runs, "vals": [draw(val) for _ in range(n)],
            "op": draw(st.integers(0, 3)),
            "maxnan": draw(st.integers(0, 3))}


def inf_oracle(case):
    """+-inf are values, not missing entries: sums, means, maxima and last
    values follow IEEE arithmetic (inf - inf = NaN)."""
    runs, op, maxnan = case["runs"], case["op"], case["maxnan"]
    idx = np.repeat(np.arange(len(runs)) + 5, runs).astype(np.int64)
    x = np.array(case["vals"], dtype=np.float64)
    if not np.isinf(x).any():
        raise Skip()

    def eq(a, b):
        if np.isnan(b):
            return bool(np.isnan(a))
        if np.isinf(b):
            return a == b
        return abs(a - b) <= 1e-9 * max(1., abs(b))

    out = dutils.aggregate(idx, x.copy(), op, maxnan)
    flat = dutils.flathomogen(idx, x.copy(), maxnan)
    if len(out) != len(runs) or flat.shape != x.shape:
        raise Violation(f"shapes {out.shape}, {flat.shape}")
    start = 0
    with np.errstate(all="ignore"):
        for k, r in enumerate(runs):
            xs, fs = x[start:start + r], flat[start:start + r]
            start += r
            nn = np.isnan(xs)
            valid = xs[~nn]
            if nn.sum() > maxnan:
                if not np.isnan(out[k]) or not np.all(np.isnan(fs)):
                    raise Violation(
                        f"group {xs.tolist()} has more than maxnan={maxnan} "
                        f"missing values: aggregate {out[k]!r}, flathomogen "
                        f"{fs.tolist()}")
                continue
            if len(valid) == 0:
                continue
            exp = [valid.sum(), valid.mean(), valid.max(), valid[-1]][op]
            if not eq(out[k], exp):
                raise Violation(f"aggregate(op={op}, maxnan={maxnan}) group "
                                f"{xs.tolist()} -> {out[k]!r}, expected "
                                f"{exp!r}")
            m = valid.mean()
            if not np.all(np.isnan(fs[nn])) or \
                    not all(eq(v, m) for v in fs[~nn]):
                raise Violation(f"flathomogen(maxnan={maxnan}) group "
                                f"{xs.tolist()} -> {fs.tolist()}, expected "
                                f"the mean {m!r} at the non-missing entries")
    return {"nt": True, "labels": [f"op:{op}",
                                   "both-signs" if (x == np.inf).any()
                                   and (x == -np.inf).any() else "one-sign"]}


def enum_sizes(tier):
    """Series lengths and group lengths at and around powers of two."""
    ns = [255, 256, 257, 1023, 1024, 1025] if tier == "quick" else \
        [127, 128, 129, 255, 256, 257, 511, 512, 513, 1023, 1024, 1025,
         4095, 4096, 4097, 65535, 65536, 65537]
    for n in ns:
        for layout in ("singletons", "one-group", "sevens", "halves"):
            if n > 5000 and layout == "singletons":
                continue        # (the reference loops over the groups)
            for op in range(4):
                yield {"n": n, "layout": layout, "op": op}


def sizes_oracle(case):
    n, layout, op = case["n"], case["layout"], case["op"]
    rng = np.random.RandomState(n * 10 + op)
    if layout == "singletons":
        runs = [1] * n
    elif layout == "one-group":
        runs = [n]
    elif layout == "sevens":
        runs = [7] * (n // 7) + ([n % 7] if n % 7 else [])
    else:
        runs = [n // 2, n - n // 2]
    vals = np.round(rng.normal(size=n) * 10, 3)
    nanmask = rng.uniform(size=n) < 0.05
    full = {"runs": runs, "gaps": [1] * len(runs), "offset": 199501,
            "spread": None, "vals": vals.tolist(),
            "nan": nanmask.tolist(), "op": op,
            "maxnan": [0, 1, n][op % 3], "drop_at": n // 2,
            "regime": "normal", "icont": ["int64", "int32"][op % 2]}
    res = agg_oracle(full)
    return {"nt": True, "labels": [f"n:{n}", f"layout:{layout}"]}


def enum_many(tier):
    """Numbers of groups far beyond the generated ones (decades of hourly or
    centuries of daily groups; round numbers and powers of two)."""
    gs = [65537, 100000, 109999, 110000, 110001, 131072, 200000, 262145]
    if tier == "thorough":
        gs += [10**6, 2**21 + 1, 5 * 10**6]
    for g in gs:
        for r in (1, 2):
            for op in range(4):
                yield {"groups": g, "run": r, "op": op}


def many_oracle(case):
    G, r, op = case["groups"], case["run"], case["op"]
    rng = np.random.RandomState(G % 1000 + 7 * r + op)
    x = np.round(rng.normal(size=G * r) * 10, 3)
    x[rng.uniform(size=G * r) < 0.02] = np.nan
    idx = np.repeat(np.arange(G, dtype=np.int64) + 199501, r)
    maxnan = [0, 1][op % 2]
    out = dutils.aggregate(idx if op < 2 else idx.astype(np.int32), x.copy(),
                           op, maxnan)
    if out.shape != (G,):
        raise Violation(f"{G} groups of {r}: aggregate returns shape "
                        f"{out.shape}")
    X = x.reshape(G, r)
    valid = ~np.isnan(X)
    nnan = r - valid.sum(axis=1)
    cnt = valid.sum(axis=1)
    sums = np.where(valid, X, 0.).sum(axis=1)
    with np.errstate(all="ignore"):
        if op == 0:
            exp = sums
        elif op == 1:
            exp = sums / cnt
        elif op == 2:
            exp = np.where(cnt > 0, np.nanmax(np.where(valid, X, -np.inf),
                                              axis=1), np.nan)
        else:
            last = np.where(valid[:, -1], X[:, -1], X[:, 0])
            exp = np.where(cnt > 0, last, np.nan)
    rejected = nnan > maxnan
    if not np.all(np.isnan(out[rejected])):
        k = int(np.argmax(rejected & ~np.isnan(out)))
        raise Violation(f"{G} groups of {r}, op {op}: group {k} has {nnan[k]} "
                        f"> maxnan={maxnan} missing values but the result is "
                        f"{out[k]!r}")
    judged = ~rejected & (cnt > 0)
    bad = judged & ~(np.abs(out - exp) <= 1e-12 * np.abs(
        np.where(valid, X, 0.)).sum(axis=1))
    if bad.any():
        k = int(np.argmax(bad))
        raise Violation(f"{G} groups of {r}, op {op}: group {k} "
                        f"{X[k].tolist()} -> {out[k]!r}, expected {exp[k]!r}")
    empty = ~rejected & (cnt == 0)
    if op == 0 and empty.any() and not np.all(out[empty] == 0):
        raise Violation("sum of an all-missing accepted group is not 0")
    flat = dutils.flathomogen(idx, x.copy(), maxnan)
    mean = np.where(rejected | (cnt == 0), np.nan,
                    sums / np.maximum(cnt, 1))
    expf = np.where(valid, np.repeat(mean, r).reshape(G, r), np.nan)
    F = flat.reshape(G, r)
    if not np.array_equal(np.isnan(F), np.isnan(expf)) or not np.all(
            np.abs(F - expf)[~np.isnan(expf)] <= 1e-12 * np.repeat(
                np.abs(np.where(valid, X, 0.)).sum(axis=1), r
            ).reshape(G, r)[~np.isnan(expf)]):
        raise Violation(f"{G} groups of {r}: flathomogen differs from the "
                        "group means / missing pattern")
    return {"nt": True, "labels": [f"groups:{G}", f"run:{r}"]}


SUBS = [
    Sub("C08.many-groups", many_oracle, enumerate=enum_many,
        shards=(16, 16)),
    Sub("C08.infinite-values", inf_oracle, strategy=inf_case,
        n=(150, 3000), shards=(4, 8)),
    Sub("C08.sizes-around-powers-of-two", sizes_oracle, enumerate=enum_sizes,
        shards=(16, 16)),
    Sub("C08.aggregate+flathomogen", agg_oracle, strategy=agg_case,
        n=(700, 20000), shards=(8, 16)),
    Sub("C08.monthly2daily", m2d_oracle, strategy=m2d_case,
        n=(60, 1500), shards=(8, 16)),
]
