"""C11 - flow accumulation equals the sum over everything upstream."""
import numpy as np
from hypothesis import strategies as st

from vf.core import Sub, Violation, Skip
from vf.props import gis_common as G
from vf.props.c06 import quiet
from hydrodiy.gis.grid import Grid, accumulate

PROPERTY = "C11"
RULE = ("(a) exhaustive: every flow grid of shape 1x1..2x2 (thorough adds "
        "2x3,3x2,1x4,4x1) over {0, eight codes, invalid 3}, each with the "
        "default field (None -> ones) and a deterministic non-uniform field "
        "(distinct powers of a base so that every subset sum is distinct); "
        "(b) Hypothesis: acyclic forests and uniform random grids up to "
        "12x12 (thorough 40x40) with fields default / constant / random "
        "positive / with zeros and negatives / integer dtype / stored as uint8, "
        "int8, int16, uint16, bool or float32 over the whole range of the "
        "type, flow grids of "
        "dtype int64/int32/float64, no-data values, nprint 0/1/100, capped "
        "max_accumulated_cells and cyclic grids for the termination clause. "
        "Oracle: graph model - acc[c] = sum of field over cells whose walk "
        "passes through c (and the recursive form field[c] + sum acc[direct "
        "upstream]) for cells with a downstream cell, no-data elsewhere; "
        "inputs unchanged; plus grids of 6e4..1.8e6 cells (all flow east, "
        "last column south) against cumulative sums. Non-trivial = field not uniform and some cell "
        "with >= 2 cells upstream.")


# georeferencing of the flow grid / of the field grid: the accumulation works
# cell by cell on two grids of the same shape, whatever their headers say
GEOM = {"default": {}, "header": dict(cellsize=2., xllcorner=130.,
                                      yllcorner=-39.),
        "fine": dict(cellsize=0.001, xllcorner=-3e5, yllcorner=6e6)}
GEOMS = [("default", "default"), ("header", "header"),
         ("header", "default"), ("default", "fine"), ("fine", "header")]


def run_accumulate(fd, field, nodata, fdtype, nprint, cap, bounds=False,
                   geoms=("default", "default"), fdnodata=None):
    nr, nc = fd.shape
    kw = dict(GEOM[geoms[0]])
    if fdnodata is not None:
        kw["nodata"] = fdnodata
    g = Grid("fd", nc, nr, dtype=fdtype, **kw)
    g.data = fd.astype(fdtype)
    ta = None
    if field is not None:
        ta = Grid("ta", nc, nr, dtype=field.dtype.type, nodata=nodata,
                  **GEOM[geoms[1]])
        ta.data = field
        if bounds:
            # declared valid range of the field itself (it does not alter
            # the field): sums may leave it, no-data may lie outside it
            ta.mindata = field.min()
            ta.maxdata = field.max()
    acc = accumulate(g, ta, nprint=nprint, max_accumulated_cells=cap)
    return g, ta, acc


def check(fd, field, nodata, fdtype=np.int64, nprint=100, cap=-1,
          labels=None, bounds=False, geoms=("default", "default"),
          fdnodata=None):
    """Returns the non-triviality flag."""
    quiet()
    nr, nc = fd.shape
    N = nr * nc
    down = G.down_model(fd)
    chains, cyc = G.chains(down)
    anycyc = any(cyc)
    fd0 = fd.copy()
    f0 = None if field is None else field.copy()
    capped = cap != -1
    try:
        g, ta, accg = run_accumulate(fd, field, nodata, fdtype, nprint, cap,
                                     bounds, geoms, fdnodata)
    except ValueError as e:
        if anycyc or capped:
            if labels is not None:
                labels.add("rejected:cycle-or-cap")
            return False
        raise Violation(f"accumulate raised {e} on acyclic grid "
                        f"{fd.tolist()}")
    if anycyc or capped:
        # termination clause only: the call came back
        if labels is not None:
            labels.add("bounded:cycle-or-cap")
        return False
    acc = np.asarray(accg.data, dtype=np.float64).ravel()
    f = np.ones(N) if field is None else field.astype(np.float64).ravel()
    nd = float(g.nodata) if field is None else float(nodata)
    if field is None and fdnodata is not None:
        # the marker the flow direction grid was given by the caller
        nd = float(fdnodata)
    exp = np.zeros(N)
    for c in range(N):
        for x in chains[c]:
            exp[x] += f[c]
    tol = 1e-9 * max(1.0, np.abs(f).sum())
    for c in range(N):
        if down[c] < 0:
            if not (acc[c] == nd or (np.isnan(nd) and np.isnan(acc[c]))):
                raise Violation(
                    f"cell {c} has no downstream cell but accumulation "
                    f"{acc[c]!r} != nodata {nd!r}; grid {fd.tolist()}")
        else:
            if not abs(acc[c] - exp[c]) <= tol:
                raise Violation(
                    f"accumulation[{c}] = {acc[c]!r}, sum over upstream "
                    f"cells = {exp[c]!r}; grid {fd.tolist()} field "
                    f"{None if field is None else field.tolist()}")
            ups = [u for u in range(N) if down[u] == c]
            rec = f[c] + sum(exp[u] for u in ups)
            if not abs(acc[c] - rec) <= tol:
                raise Violation(f"accumulation[{c}] != own value + "
                                "accumulations of direct upstream cells")
    if not np.array_equal(np.asarray(g.data), fd0):
        raise Violation("flow direction grid values were modified")
    if field is not None and not np.array_equal(np.asarray(ta.data), f0,
                                                equal_nan=True):
        raise Violation("values of the grid to accumulate were modified")
    # the same grids used again after the field was edited in place
    if field is not None and field.dtype.kind == "f":
        ta.data[:] = ta.data * 2.0 + 1.0
        acc2 = np.asarray(accumulate(g, ta, nprint=0).data,
                          dtype=np.float64).ravel()
        f2 = f * 2.0 + 1.0
        for c in range(N):
            if down[c] >= 0:
                e2 = sum(f2[u] for u in range(N) if c in chains[u])
                if not abs(acc2[c] - e2) <= 1e-9 * max(1.0,
                                                       np.abs(f2).sum()):
                    raise Violation(
                        f"accumulate called again after the field grid was "
                        f"edited in place: cell {c} {acc2[c]!r}, expected "
                        f"{e2!r}; grid {fd.tolist()}")
    nup = max(len([u for u in range(N) if c in chains[u] and u != c])
              for c in range(N))
    return len(set(f.tolist())) > 1 and nup >= 2


def exhaustive_oracle(case):
    fd = G.fd_array(case)
    nr, nc = fd.shape
    labels = {f"shape:{nr}x{nc}"}
    check(fd, None, 0, labels=labels)
    # distinct powers of 3 (negative for odd cells): every subset sum differs
    field = np.array([(-1.0) ** c * 3.0 ** c for c in range(fd.size)]
                     ).reshape(nr, nc)
    nt = check(fd, field, -9999., labels=labels,
               geoms=GEOMS[int(fd.sum()) % len(GEOMS)])
    check(fd, np.abs(field), -1., labels=labels, bounds=True)
    return {"nt": nt, "labels": sorted(labels)}


def enum_cases(tier):
    import itertools
    it = G.enum_grids(list(G.SHAPES_QUICK))
    if tier == "thorough":
        it = itertools.chain(
            it, G.enum_grids([(1, 4), (4, 1)]),
            G.enum_grids([(2, 3), (3, 2)],
                         alphabet=[0, 1, 2, 4, 16, 64, 3]))
    return it


@st.composite
def random_case(draw, tier):
    maxdim = 12
    if tier == "thorough" and draw(st.integers(0, 9)) == 0:
        maxdim = 40
    k_ = draw(st.integers(0, 7))
    if k_ == 0:
        from vf.props.c06 import convergent_grid
        c = draw(convergent_grid())
    elif k_ == 1:
        c = draw(G.serpentine_grid())
    else:
        c = draw(G.random_grid(maxdim, kinds=("forest", "forest", "forest",
                                              "forest", "majority",
                                              "majority", "uniform")))
    n = c["shape"][0] * c["shape"][1]
    kind = draw(st.sampled_from(["none", "const", "positive", "positive",
                                 "signed", "signed", "int", "int", "narrow",
                                 "narrow"]))
    c["fkind"] = kind
    if kind == "narrow":
        # fields stored in a narrow type (masks, 8/16-bit rasters, float32):
        # the sums leave the range / the precision of the field's own type
        dt, lo, hi, nds = draw(st.sampled_from([
            ("uint8", 0, 255, [255., 0.]), ("int8", -128, 127, [-1., -128.]),
            ("int16", -32768, 32767, [-9999., -1.]),
            ("uint16", 0, 65535, [0., 65535.]), ("bool", 0, 1, [0.]),
            ("float32", None, None, [-9999., float("nan")]),
            ("uint8", 1, 1, [255.]), ("float32", None, None, [-1.])]))
        c["fdt"] = dt
        if dt == "float32":
            c["field"] = [float(np.float32(v)) for v in draw(st.lists(
                st.floats(0.0009765625, 1e3, width=32), min_size=n, max_size=n))]
        else:
            c["field"] = [float(v) for v in draw(st.lists(
                st.one_of(st.integers(lo, hi), st.sampled_from([lo, hi, hi])),
                min_size=n, max_size=n))]
        c["nodata_narrow"] = draw(st.sampled_from(nds))
    if kind == "const":
        c["field"] = [draw(st.sampled_from([1., 2.5, -1., 0.]))] * n
    elif kind == "positive":
        c["field"] = draw(st.lists(st.floats(0.001, 1e3), min_size=n,
                                   max_size=n))
    elif kind == "signed":
        c["field"] = draw(st.lists(st.sampled_from(
            [0., 0., 1., -1., 2.5, -7., 100., 1e-3]), min_size=n, max_size=n))
    elif kind == "int":
        c["field"] = [float(v) for v in draw(
            st.lists(st.integers(-5, 9), min_size=n, max_size=n))]
    c["nodata"] = draw(st.sampled_from([-9999., 0., float("nan"), -1.]))
    c["fdtype"] = draw(st.sampled_from(["int64", "int64", "int32",
                                        "float64"]))
    # a flow direction raster read as floats keeps its own no-data marker
    # (NaN, the float32 minimum, a fractional value, the byte 255)
    c["fdnodata"] = draw(st.sampled_from(
        [None, None, float("nan"), -3.4028234663852886e38, -9999.5, 255.,
         -1., -1.7976931348623157e308])) if c["fdtype"] == "float64" else None
    c["nprint"] = draw(st.sampled_from([0, 1, 100]))
    c["cap"] = draw(st.sampled_from([-1] * 21 + [0, 1, 3]))
    c["bounds"] = draw(st.booleans())
    return c


def random_oracle(case):
    fd = G.fd_array(case)
    nr, nc = fd.shape
    labels = {f"kind:{case['kind']}", f"field:{case['fkind']}",
              f"fdtype:{case['fdtype']}", f"nprint:{case['nprint']}"}
    field = None
    if case["fkind"] != "none":
        dt = np.int64 if case["fkind"] == "int" else np.float64
        if case["fkind"] == "narrow":
            dt = np.dtype(case["fdt"]).type
            labels.add(f"field-dtype:{case['fdt']}")
        field = np.array(case["field"], dtype=dt).reshape(nr, nc)
    nodata = case["nodata"]
    if case["fkind"] == "narrow":
        nodata = case["nodata_narrow"]
    if case["fkind"] == "int" and np.isnan(nodata):
        nodata = -9999.
    geoms = GEOMS[(len(case["fd"]) + int(case["nprint"]) + nr) % len(GEOMS)] \
        if case.get("geoms") is None else tuple(case["geoms"])
    labels.add(f"georeference:{geoms[0]}/{geoms[1]}")
    nt = check(fd, field, nodata, fdtype=np.dtype(case["fdtype"]).type,
               nprint=case["nprint"], cap=case["cap"], labels=labels,
               bounds=case.get("bounds", False), geoms=geoms,
               fdnodata=case.get("fdnodata"))
    if case.get("fdnodata") is not None:
        labels.add("float-flow-grid-with-own-nodata")
    if case.get("bounds") and field is not None:
        labels.add("field-with-data-bounds")
    if case["cap"] != -1:
        labels.add("capped")
    return {"nt": nt, "labels": sorted(labels)}


# ------------------------------------------------------------ large grids
def enum_large(tier):
    quick = [(300, 400), (3, 20000), (20000, 3), (1, 46400), (1, 255), (1, 256), (1, 257), (16, 16), (17, 15), (32, 33), (64, 64), (128, 2), (2, 129)]
    shapes = quick if tier == "quick" else quick + [(1200, 1500), (2, 70000)]
    for nr, nc in shapes:
        for fk in ("unit", "pattern"):
            yield {"nrows": nr, "ncols": nc, "field": fk}
        if nr * nc <= 60000:
            for fk in ("mask-uint8", "mask-bool", "float32"):
                yield {"nrows": nr, "ncols": nc, "field": fk}


def large_oracle(case):
    """Every cell flows east, the last column flows south to one sink: the
    accumulation is a cumulative sum along each row and of the row totals
    down the last column."""
    quiet()
    nr, nc = case["nrows"], case["ncols"]
    fd = np.ones((nr, nc), dtype=np.int64)
    fd[:, -1] = 4
    fd[-1, -1] = 0
    r, c = np.meshgrid(np.arange(nr), np.arange(nc), indexing="ij")
    if case["field"] == "unit":
        field, f = None, np.ones((nr, nc))
    elif case["field"] in ("mask-uint8", "mask-bool"):
        # a mask of flagged cells stored in one byte: counts go beyond 255
        dt = np.uint8 if case["field"] == "mask-uint8" else np.bool_
        field = ((r * 7 + c * 3) % 11 != 0).astype(dt)
        f = field.astype(np.float64)
    elif case["field"] == "float32":
        field = (((r * 7 + c * 3) % 11 + 1) * np.float32(0.1)).astype(
            np.float32)
        f = field.astype(np.float64)
    else:
        # zeros, negatives and fractions
        f = ((r * 7 + c * 3) % 11 - 2) * 0.25
        field = f.copy()
    nodata = -9999. if case["field"] not in ("mask-uint8", "mask-bool") \
        else 0.
    g, ta, accg = run_accumulate(fd, field, nodata, np.int64, 10**9, -1)
    acc = np.asarray(accg.data, dtype=np.float64)
    exp = np.cumsum(f, axis=1)
    exp[:, -1] = np.cumsum(f.sum(axis=1))
    sink_nodata = float(accg.nodata)
    if acc.shape != exp.shape:
        raise Violation(f"accumulated grid has shape {acc.shape}")
    if acc[-1, -1] != sink_nodata:
        raise Violation(f"the sink holds {acc[-1, -1]!r}, not the no-data "
                        f"value {sink_nodata!r}")
    exp[-1, -1] = sink_nodata
    bad = np.abs(acc - exp) > 1e-9 * np.maximum(1., np.abs(exp))
    if bad.any():
        i, j = np.argwhere(bad)[0]
        raise Violation(
            f"{nr}x{nc} grid flowing east then south, field "
            f"{case['field']}: accumulation[{i},{j}] = {acc[i, j]!r}, sum "
            f"over the upstream cells = {exp[i, j]!r} ({int(bad.sum())} "
            "cells differ)")
    if not np.array_equal(np.asarray(g.data), fd) or (
            field is not None and not np.array_equal(np.asarray(ta.data), f)):
        raise Violation("input grids altered")
    return {"nt": True, "labels": [f"cells:{nr * nc}",
                                   f"longest-path:{nr + nc - 2}"]}


SUBS = [
    Sub("C11.large-grids", large_oracle, enumerate=enum_large,
        shards=(8, 12)),
    # (small grids: a call that has not come back after 90 s hangs - the
    # termination clause for cyclic grids and reduced cell limits)
    Sub("C11.exhaustive-small-grids", exhaustive_oracle,
        enumerate=enum_cases, shards=(16, 16), stall_s=90),
    Sub("C11.random-grids", random_oracle, strategy=random_case,
        n=(300, 8000), shards=(8, 16), stall_s=90),
]
