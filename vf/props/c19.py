"""C19 - batches partition the work; option grids enumerate every combination
once."""
import itertools
import json

import numpy as np
from hypothesis import strategies as st

from vf.core import Sub, Violation, Skip
from hydrodiy.io import hyruns

PROPERTY = "C19"
RULE = ("(a) exhaustive: every pair 1 <= nbatch <= nelements <= 80 (thorough "
        "400) with every batch index, rejected calls (nbatch > nelements, "
        "index -1 and nbatch, nelements 0) and SiteBatch over string and "
        "integer ids; plus Hypothesis pairs up to 1e5. (b) Hypothesis option "
        "dictionaries of 1..4 options with 1..5 values (Python ints incl. "
        "negative, identifier-like strings, scalars given bare, never an int "
        "and the string of the same spelling in one option), context "
        "dictionaries of 0..3 JSON-able entries, renamed dictionary keys "
        "(reset afterwards). Oracle: batches are ranges whose concatenation "
        "is range(nelements) with sizes differing by at most one; search = "
        "containing batch; ntasks = product, tasks = itertools.product in "
        "order, each once; to_dict -> JSON -> from_dict equal both ways; "
        "find(k=v) = tasks with task[k] == v; get_task(i).options is task i. "
        "Non-trivial = nelements % nbatch != 0, or >= 2 options with >= 2 "
        "values.")


def check_pair(ne, nb, full=True):
    allidx, sizes = [], []
    idxs = range(nb) if full else sorted({0, nb - 1, nb // 2})
    batches = {}
    for ib in idxs:
        idx = [int(i) for i in hyruns.get_batch(ne, nb, ib)]
        batches[ib] = idx
        if not idx:
            raise Violation(f"get_batch({ne}, {nb}, {ib}) is empty")
        if idx != list(range(idx[0], idx[0] + len(idx))):
            raise Violation(f"get_batch({ne}, {nb}, {ib}) = {idx} is not "
                            "contiguous")
        allidx += idx
        sizes.append(len(idx))
    if full:
        if allidx != list(range(ne)):
            raise Violation(f"batches of get_batch({ne}, {nb}, .) do not "
                            f"concatenate to range({ne}): {allidx[:30]}")
    else:
        lo, hi = ne // nb, -(-ne // nb)
        if batches[0][0] != 0 or batches[nb - 1][-1] != ne - 1:
            raise Violation(f"first/last batch of ({ne}, {nb}) do not "
                            "start at 0 / end at nelements-1")
        if any(s not in (lo, hi) for s in sizes):
            raise Violation(f"batch sizes {sizes} for ({ne}, {nb})")
    if max(sizes) - min(sizes) > 1:
        raise Violation(f"batch sizes {sizes} differ by more than one")
    for bad in (-1, nb):
        try:
            r = hyruns.get_batch(ne, nb, bad)
        except ValueError:
            continue
        raise Violation(f"get_batch({ne}, {nb}, {bad}) returned {r}")
    return batches


def pair_oracle(case):
    ne, nb = case["ne"], case["nb"]
    batches = check_pair(ne, nb, full=case.get("full", True))
    try:
        r = hyruns.get_batch(ne, ne + 1 + case.get("extra", 0), 0)
    except ValueError:
        pass
    else:
        raise Violation(f"get_batch({ne}, {ne + 1}, 0) returned {r}")
    try:
        r = hyruns.get_batch(0, 1, 0)
    except ValueError:
        pass
    else:
        raise Violation(f"get_batch(0, 1, 0) returned {r}")
    if case.get("full", True) and ne <= 40:
        for ids in ([f"s{i:03d}" for i in range(ne)],
                    [1000 - 7 * i for i in range(ne)]):
            sb = hyruns.SiteBatch(ids, nb)
            for ib, idx in batches.items():
                if sb[ib] != [ids[i] for i in idx]:
                    raise Violation(f"SiteBatch[{ib}] = {sb[ib]}")
                for i in idx:
                    got = sb.search(ids[i])
                    if got != ib:
                        raise Violation(
                            f"SiteBatch.search({ids[i]!r}) = {got}, the "
                            f"site is in batch {ib} ({ne} sites, {nb} "
                            "batches)")
    return {"nt": ne % nb != 0, "labels": []}


def enum_pairs(tier):
    top = 80 if tier == "quick" else 400
    for ne in range(1, top + 1):
        for nb in range(1, ne + 1):
            yield {"ne": ne, "nb": nb}


@st.composite
def big_pairs(draw, tier):
    ne = draw(st.integers(1, 100000))
    nb = draw(st.integers(1, ne))
    return {"ne": ne, "nb": nb, "full": ne <= 3000 and nb <= 300,
            "extra": draw(st.integers(0, 5))}


# ------------------------------------------------------------ option manager
ident = st.text("abcdefghijklmnopqrstuvwxyzABCDEFGHIJKLMNOPQRSTUVWXYZ_",
                min_size=1, max_size=6)
RESERVED = {"name", "tasks", "taskid", "context", "options", "names", "log",
            "to_dict", "from_dict", "self", "kwargs"}


@st.composite
def opt_case(draw, tier):
    nopt = draw(st.integers(1, 4))
    names = draw(st.lists(ident.filter(lambda k: k not in RESERVED),
                          min_size=nopt, max_size=nopt, unique=True))
    options = {}
    for nm in names:
        kind = draw(st.sampled_from(["int", "str", "bare-int", "bare-str",
                                     "mixed"]))
        if kind == "int":
            options[nm] = draw(st.lists(st.integers(-20, 120), min_size=1,
                                        max_size=5, unique=True))
        elif kind == "str":
            options[nm] = draw(st.lists(
                st.one_of(ident, st.sampled_from(["u", "uu", "a1", "a11"]),
                          # values that run into each other when joined
                          st.sampled_from(["gr4j", "gr4j_snow", "snow_v2",
                                           "v2", "a", "a_b", "b_c", "c",
                                           "x_", "_y", "x", "y", "1", "1_2",
                                           "2"])),
                min_size=1, max_size=5, unique=True))
        elif kind == "mixed":
            # numbers and words in one list (0, 1, "auto", 0.5); values whose
            # printed forms coincide (0 and "0", 1 and True) are left out:
            # find matches printed forms
            options[nm] = draw(st.lists(
                st.one_of(st.integers(-3, 9),
                          st.sampled_from(["auto", "none", "x", "n1"]),
                          st.sampled_from([0.5, 2.25])),
                min_size=2, max_size=5,
                unique_by=lambda v: str(v)))
        elif kind == "bare-int":
            options[nm] = draw(st.integers(-20, 120))
        else:
            options[nm] = draw(ident)
    # two neighbouring options whose values run into each other when joined
    # with an underscore: (X, P_Y) and (X_P, Y) are different combinations
    if nopt >= 2 and draw(st.integers(0, 4)) == 0:
        tok = st.sampled_from(["a", "b", "gr4j", "snow", "v2", "x1", "7"])
        X, P_, Y = draw(tok), draw(tok), draw(tok)
        options[names[0]] = [X, f"{X}_{P_}"]
        options[names[1]] = [f"{P_}_{Y}", Y]
        if draw(st.booleans()):
            options[names[1]].append(draw(tok) + "q")
    nctx = draw(st.integers(0, 3))
    ckeys = draw(st.lists(ident.filter(lambda k: k not in names
                                       and k not in RESERVED),
                          min_size=nctx, max_size=nctx, unique=True))
    # any JSON-able value: scalars, None, flat / rectangular / ragged nested
    # lists, lists mixing scalars and lists, dictionaries
    leaf = st.one_of(st.integers(-5, 5), ident, st.booleans(), st.none(),
                     st.sampled_from([0.5, -1.25, 1990, 2005, 0.1]))
    nested = st.recursive(
        leaf, lambda ch: st.one_of(
            st.lists(ch, max_size=3),
            st.dictionaries(ident, ch, max_size=2)), max_leaves=6)
    context = {k: draw(st.one_of(st.integers(-5, 5), ident, st.booleans(),
                                 st.lists(st.integers(0, 3), max_size=3),
                                 nested, nested,
                                 st.sampled_from([[[1990, 2000], [2005]],
                                                  [1, [2, 3]], [[1, 2], [3, 4]],
                                                  [[], [1]], {"a": [1, [2]]}])))
               for k in ckeys}
    rename = {}
    if draw(st.integers(0, 2)) == 0:
        newnames = draw(st.lists(
            ident.filter(lambda k: k not in RESERVED), min_size=3,
            max_size=3, unique=True))
        rename = dict(zip(["context_name", "task_options_name",
                           "manager_options_name"], newnames))
        # the task dictionary holds both names: they must differ from each
        # other and from "taskid"; the manager dictionary likewise
    return {"options": options, "context": context, "rename": rename,
            "mname": draw(st.sampled_from(["Task Manager", "mgr", "x y"]))}


def opt_oracle(case):
    options, context = case["options"], case["context"]
    labels = []
    try:
        for k, v in case["rename"].items():
            hyruns.set_dict_keyname(k, v)
        if case["rename"]:
            labels.append("renamed-keys")
        return run_opt(case, options, context, labels)
    finally:
        hyruns.reset_dict_keyname()


def run_opt(case, options, context, labels):
    opm = hyruns.OptionManager(case["mname"], **context)
    opm.from_cartesian_product(**options)
    lists = {k: (v if isinstance(v, list) else [v])
             for k, v in options.items()}
    keys = list(lists)
    expected = [dict(zip(keys, t))
                for t in itertools.product(*[lists[k] for k in keys])]
    n = 1
    for k in keys:
        n *= len(lists[k])
    if opm.ntasks != n:
        raise Violation(f"ntasks = {opm.ntasks}, product of the numbers of "
                        f"values = {n}")
    got = [opm.get_task(i).options for i in range(opm.ntasks)]
    if got != expected:
        raise Violation(f"tasks {got[:6]}... differ from itertools.product "
                        f"{expected[:6]}...")
    seen = set()
    for t in got:
        key = json.dumps(t, sort_keys=True)
        if key in seen:
            raise Violation(f"combination {t} enumerated twice")
        seen.add(key)
    for i in (0, opm.ntasks - 1):
        t = opm.get_task(i)
        if t.taskid != i or t.context != context:
            raise Violation(f"get_task({i}) carries taskid {t.taskid} / "
                            f"context {t.context}")
        for k in keys:
            if t[k] != expected[i][k] or getattr(t, k) != expected[i][k]:
                raise Violation(f"task[{k!r}] != option value")
    # dictionary / JSON round trip
    d = opm.to_dict()
    dj = json.loads(json.dumps(d))
    for what, dd in (("to_dict", d), ("to_dict/JSON", dj),
                     ("to_dict, loaded a second time", d),
                     ("to_dict/JSON, loaded a second time", dj)):
        before = json.dumps(dd, sort_keys=True, default=str)
        o2 = hyruns.OptionManager.from_dict(dd)
        if json.dumps(dd, sort_keys=True, default=str) != before:
            raise Violation(f"from_dict({what}) altered the dictionary it "
                            "was given")
        if not (opm == o2):
            raise Violation(f"manager != from_dict({what})")
        if not (o2 == opm):
            raise Violation(f"from_dict({what}) != manager")
        if o2.ntasks != n or o2.context != context or o2.name != opm.name:
            raise Violation(f"from_dict({what}) lost tasks/context/name: "
                            f"{o2.ntasks}, {o2.context}, {o2.name!r}")
        got2 = [o2.get_task(i).options for i in range(o2.ntasks)]
        if got2 != expected:
            raise Violation(f"tasks differ after {what} round trip")
    # file round trip (save writes the dictionary as JSON text)
    import os
    import tempfile
    from vf.core import OUT
    (OUT / "tmp").mkdir(parents=True, exist_ok=True)
    fd, fname = tempfile.mkstemp(prefix="opm-", suffix=".json",
                                 dir=OUT / "tmp")
    os.close(fd)
    try:
        opm.save(fname, overwrite=True)
        o3 = hyruns.OptionManager.from_file(fname, wait_secs=0)
        if not (opm == o3 and o3 == opm):
            raise Violation("manager saved to a file and read back is not "
                            "equal to the original")
        if [o3.get_task(i).options for i in range(o3.ntasks)] != expected:
            raise Violation("tasks differ after the file round trip")
    finally:
        os.unlink(fname)
    # find
    for k in keys:
        for v in lists[k]:
            exp = [i for i, t in enumerate(expected) if t[k] == v]
            got = opm.find(**{k: v})
            if got != exp:
                raise Violation(f"find({k}={v!r}) = {got}, tasks whose "
                                f"option equals the value: {exp}")
    if len(keys) >= 2:
        k1, k2 = keys[0], keys[1]
        v1, v2 = lists[k1][-1], lists[k2][0]
        exp = [i for i, t in enumerate(expected)
               if t[k1] == v1 and t[k2] == v2]
        if opm.find(**{k1: v1, k2: v2}) != exp:
            raise Violation(f"find({k1}={v1!r}, {k2}={v2!r}) != {exp}")
    # any number of criteria at once: three, all the options of a task (only
    # the tasks with exactly these options remain), none (every task)
    for nk in sorted({min(3, len(keys)), len(keys)}):
        for ti_ in sorted({0, len(expected) // 2, len(expected) - 1}):
            crit = {k: expected[ti_][k] for k in keys[-nk:]}
            exp = [i for i, t in enumerate(expected)
                   if all(t[k] == v for k, v in crit.items())]
            try:
                got = opm.find(**crit)
            except Exception as e:
                raise Violation(f"find with {nk} criteria {crit!r} raised "
                                f"{type(e).__name__}: {e}")
            if got != exp:
                raise Violation(f"find with {nk} criteria {crit!r} = {got}, "
                                f"tasks holding all these values: {exp}")
        if nk >= 3:
            labels.append("find:3-or-more-criteria")
    if opm.find() != list(range(len(expected))):
        raise Violation("find() without criteria does not list every task")
    # the same manager rebuilt from another product forgets the first one
    opm.from_cartesian_product(zz_first=[3, 1, 2], zz_second="only")
    if opm.ntasks != 3 or [opm.get_task(i).options for i in range(3)] != \
            [{"zz_first": v, "zz_second": "only"} for v in (3, 1, 2)] or \
            opm.find(zz_first=1) != [1]:
        raise Violation("from_cartesian_product called a second time on the "
                        "same manager does not replace the first product")
    multi = sum(1 for k in keys if len(lists[k]) >= 2)
    if any(not isinstance(v, list) for v in options.values()):
        labels.append("bare-scalar")
    return {"nt": multi >= 2, "labels": labels}


SUBS = [
    Sub("C19.batches-exhaustive", pair_oracle, enumerate=enum_pairs,
        shards=(8, 16)),
    Sub("C19.batches-large", pair_oracle, strategy=big_pairs,
        n=(150, 3000), shards=(4, 8)),
    Sub("C19.option-manager", opt_oracle, strategy=opt_case,
        n=(250, 6000), shards=(8, 16)),
]
