"""C20 - sampling, ranking and summary helpers return what their names
promise."""
import math

import numpy as np
import pandas as pd
from hypothesis import strategies as st

from vf.core import Sub, Violation, Skip
from hydrodiy.stat import sutils
from hydrodiy.plot import boxplot, violinplot

PROPERTY = "C20"
RULE = ("Hypothesis-generated inputs per helper. lhs: 1..200 samples, 1..6 "
        "parameters, lower bound N(0,1)*10^k, width exp(U(-5,5)), seeded "
        "inside the case; oracle: exactly one point per stratum per "
        "parameter. ppos: n 1..300, cst in [0,.5] (+ rejected values): "
        "strictly increasing in (0,1), symmetric. standard_normal: NaN-free "
        "vectors continuous/integer: strictly increasing in the rank, equal "
        "for ties. pareto_front: 0..60 points, 1..5 dimensions, integer "
        "coordinates in [-2,2], 10 % NaN, both orientations; oracle: brute "
        "force dominance, non-empty front for complete data, orientation = "
        "negation. boxplot: 1..4 columns x 0..300 rows, continuous / integer "
        "values with NaN, +inf, -inf, constant columns, box coverage in "
        "[40,99], whiskers above, `by` groups of unequal size; oracle: "
        "numpy percentiles/mean/min/max/count of the finite values, "
        "monotone, group = group alone. Violin: same frames (any number of "
        "rows up to 520); oracle: stats = 0/25/50/75/100 % quantiles of the "
        "finite values, kde_y in [0,1] attaining 0 and 1, kde_x sorted "
        "within [min,max]. Non-trivial = ties, NaN coordinates, +-inf in a "
        "column, or >= 3 categories.")

unit = st.floats(0., 1., allow_nan=False)
norm = st.floats(-3., 3., allow_nan=False)


# ------------------------------------------------------------------ lhs/ppos
@st.composite
def lhs_case(draw, tier):
    npar = draw(st.integers(1, 6))
    return {"ns": draw(st.integers(1, 200)),
            "lo": [draw(norm) * 10.0 ** draw(st.integers(-3, 3))
                   for _ in range(npar)],
            "w": [math.exp(10 * draw(unit) - 5) for _ in range(npar)],
            "seed": draw(st.integers(0, 2**31 - 1)),
            "n": draw(st.integers(1, 300)),
            "cst": draw(st.one_of(unit.map(lambda u: u / 2),
                                  st.sampled_from([0., 0.5, 0.3]))),
            "badcst": draw(st.sampled_from([-0.1, 0.51, 1., -1e-9]))}


def lhs_oracle(case):
    ns = case["ns"]
    lo = np.array(case["lo"])
    w = np.array(case["w"])
    hi = lo + w
    if np.any(hi <= lo):
        raise Skip()
    np.random.seed(case["seed"])
    S = sutils.lhs(ns, lo.copy(), hi.copy())
    if S.shape != (ns, len(lo)):
        raise Violation(f"lhs shape {S.shape}, expected {(ns, len(lo))}")
    for j in range(len(lo)):
        srt = np.sort(S[:, j])
        edges = lo[j] + (hi[j] - lo[j]) * np.arange(ns + 1) / ns
        tol = 1e-9 * (abs(lo[j]) + abs(hi[j]))
        if not (np.all(srt >= edges[:-1] - tol)
                and np.all(srt <= edges[1:] + tol)):
            k = int(np.argmax(~((srt >= edges[:-1] - tol)
                                & (srt <= edges[1:] + tol))))
            raise Violation(
                f"lhs parameter {j}: sorted sample {k} = {srt[k]!r} is not "
                f"in stratum [{edges[k]!r}, {edges[k + 1]!r}] "
                f"({ns} samples on [{lo[j]}, {hi[j]}])")
    np.random.seed(case["seed"])
    S2 = sutils.lhs(ns, lo.copy(), hi.copy())
    if not np.array_equal(S, S2):
        raise Violation("lhs not repeatable with the same seed")
    np.random.seed(case["seed"])
    S3 = sutils.lhs(ns, lo.tolist(), hi.tolist())
    if not np.array_equal(S, S3):
        raise Violation("lhs differs between array and list bounds")
    # plotting positions
    n, cst = case["n"], case["cst"]
    pp = sutils.ppos(n, cst)
    if len(pp) != n or not (np.all(np.diff(pp) > 0) and pp[0] > 0
                            and pp[-1] < 1):
        raise Violation(f"ppos({n}, {cst}) not strictly increasing inside "
                        f"(0, 1): {pp[:3]}..{pp[-3:]}")
    if not np.allclose(pp + pp[::-1], 1, atol=1e-12, rtol=0):
        raise Violation(f"ppos({n}, {cst}) not symmetric about 0.5")
    try:
        r = sutils.ppos(n, case["badcst"])
    except ValueError:
        pass
    else:
        raise Violation(f"ppos accepted cst={case['badcst']}: {r[:3]}")
    return {"nt": ns >= 2 and len(lo) >= 2, "labels": []}


# -------------------------------------------------------- standard_normal etc
@st.composite
def rank_case(draw, tier):
    n = draw(st.integers(1, 300))
    kind = draw(st.sampled_from(["int", "cont", "mixed"]))
    if kind == "int":
        x = [float(draw(st.integers(-5, 5))) for _ in range(n)]
    elif kind == "cont":
        x = [draw(st.floats(-1e6, 1e6, allow_nan=False)) for _ in range(n)]
    else:
        x = [draw(st.one_of(st.integers(-2, 2).map(float), norm))
             for _ in range(n)]
    npt = draw(st.one_of(st.integers(0, 60), st.sampled_from([0, 1, 1, 2, 3])))
    nd = draw(st.integers(1, 5))
    P = [[draw(st.one_of(st.integers(-2, 2).map(float),
                         st.integers(-2, 2).map(float),
                         st.integers(-2, 2).map(float),
                         st.just(float("nan")))) if draw(st.integers(0, 9))
          == 0 else float(draw(st.integers(-2, 2))) for _ in range(nd)]
         for _ in range(npt)]
    # a point without any coordinate (all NaN), now and then
    if npt and draw(st.integers(0, 5)) == 0:
        P[draw(st.integers(0, npt - 1))] = [float("nan")] * nd
    # margins between coordinates: 1, 1e-11, 1e-300 or one ulp
    pscale = draw(st.sampled_from(["unit", "unit", "1e-11", "1e-300", "ulp",
                                   "1e-12*"]))
    return {"x": x, "kind": kind, "P": P, "nd": nd, "pscale": pscale,
            "cst": draw(st.sampled_from([0., 0.3, 0.5])),
            "rank_method": draw(st.sampled_from(["average", "average", "min",
                                                 "max", "first", "dense"])),
            "layout": draw(st.sampled_from(["C", "F", "strided"]))}


def rank_oracle(case):
    x = np.array(case["x"], dtype=np.float64)
    n = len(x)
    labels = [f"kind:{case['kind']}"]
    un, rk = sutils.standard_normal(x.copy(), cst=case["cst"])
    un = np.asarray(un, dtype=np.float64)
    un2, _ = sutils.standard_normal(pd.Series(x), cst=case["cst"])
    un3, _ = sutils.standard_normal(x.tolist(), cst=case["cst"])
    if not (np.array_equal(un, np.asarray(un2), equal_nan=True)
            and np.array_equal(un, np.asarray(un3), equal_nan=True)):
        raise Violation("standard_normal differs between array, Series and "
                        "list input")
    if len(un) != n:
        raise Violation(f"standard_normal returns {len(un)} values")
    o = np.argsort(x, kind="stable")
    xs, us = x[o], un[o]
    ties = False
    if n > 1:
        inc = np.diff(xs) > 0
        ties = bool((~inc).any())
        if not np.all(np.diff(us)[inc] > 0):
            raise Violation("normal scores not strictly increasing with "
                            "the data")
        if not np.all(np.diff(us)[~inc] == 0):
            raise Violation("tied data receive different normal scores")
    if not np.all(np.isfinite(un)) and case["cst"] > 0:
        raise Violation("normal scores not finite")
    # the other ways of ranking: the scores are a strictly increasing
    # function of the ranks returned with them
    from scipy.stats import rankdata, norm as _norm
    meth = case.get("rank_method", "average")
    calls = [(dict(cst=case["cst"], rank_method=meth), x,
              rankdata(x, method="ordinal" if meth == "first" else meth)
              - 1.0)]
    if n:
        xs_ = np.sort(x)
        calls.append((dict(cst=case["cst"], sorted=True), xs_,
                      np.arange(n, dtype=np.float64)))
    for kw, xin, rexp in calls if n else []:
        u_, r_ = sutils.standard_normal(xin.copy(), **kw)
        u_, r_ = np.asarray(u_, dtype=np.float64), \
            np.asarray(r_, dtype=np.float64)
        if not np.array_equal(r_, rexp):
            raise Violation(f"standard_normal({kw}) ranks {r_.tolist()} != "
                            f"{rexp.tolist()} for {xin.tolist()}")
        oo = np.argsort(r_, kind="stable")
        dr, du = np.diff(r_[oo]), np.diff(u_[oo])
        if not (np.all(du[dr > 0] > 0) and np.all(du[dr == 0] == 0)):
            raise Violation(f"standard_normal({kw}): scores are not a "
                            "strictly increasing function of the ranks")
        eu = _norm.ppf((rexp + 1 - case["cst"]) / (n + 1 - 2 * case["cst"]))
        if not np.allclose(u_, eu, atol=1e-12, rtol=1e-12):
            raise Violation(f"standard_normal({kw}) scores differ from "
                            "the normal quantiles of the plotting "
                            "positions of the ranks")
    labels.append(f"rank_method:{meth}")
    # pareto
    nd = case["nd"]
    P = np.array(case["P"], dtype=np.float64).reshape(len(case["P"]), nd)
    ps = case.get("pscale", "unit")
    if ps == "1e-11":
        P = 1.0 + P * 1e-11
    elif ps == "1e-300":
        P = P * 1e-300
    elif ps == "1e-12*":
        P = P * 1e-12
    elif ps == "ulp":
        P = 1.0 + P * float(np.spacing(1.0))
    if ps != "unit":
        labels.append(f"pareto:margin-{ps}")
    npt = len(P)
    hasnan = bool(np.isnan(P).any())
    if case["layout"] == "F":
        Pin = np.asfortranarray(P)
    elif case["layout"] == "strided" and npt:
        big = np.zeros((npt, 2 * nd))
        big[:, ::2] = P
        Pin = big[:, ::2]
    else:
        Pin = P.copy()
    res = {}
    for ori in (1, -1):
        dm = np.asarray(sutils.pareto_front(Pin, ori))
        e = np.zeros(npt, dtype=int)
        for i in range(npt):
            for j in range(npt):
                if i == j:
                    continue
                d = P[j] - P[i]
                if all(math.isnan(dd) or ori * dd > 0 for dd in d):
                    e[i] = 1
                    break
        if dm.shape != (npt,) or not np.array_equal(dm, e):
            k = int(np.argmax(dm != e)) if dm.shape == (npt,) else -1
            raise Violation(
                f"pareto_front(orientation={ori}) flags {dm.tolist()}, "
                f"brute force {e.tolist()} (first difference at point {k}: "
                f"{P[k].tolist() if k >= 0 else ''}); data {P.tolist()}")
        res[ori] = dm
        if npt and not hasnan and dm.min() != 0:
            raise Violation("complete data with an empty non-dominated set")
    if npt:
        neg = np.asarray(sutils.pareto_front(-P, 1))
        if not np.array_equal(neg, res[-1]):
            raise Violation("orientation -1 differs from negating the data")
    if hasnan:
        labels.append("pareto:nan")
    return {"nt": ties or hasnan, "labels": labels}


# ----------------------------------------------------------------- box plots
@st.composite
def frame_case(draw, tier, maxrows=300):
    ncol = draw(st.integers(1, 4))
    nrow = draw(st.one_of(st.integers(0, 12), st.integers(0, maxrows)))
    cols = []
    for _ in range(ncol):
        kind = draw(st.sampled_from(["cont", "int", "const"]))
        special = draw(st.sampled_from(["none", "nan", "inf", "all"]))
        vals = []
        for _ in range(nrow):
            if kind == "cont":
                v = draw(norm)
            elif kind == "int":
                v = float(draw(st.integers(-3, 3)))
            else:
                v = 1.5
            if special != "none":
                k = draw(st.integers(0, 19))
                if k == 0 and special in ("nan", "all"):
                    v = float("nan")
                elif k == 1 and special in ("inf", "all"):
                    v = float("inf")
                elif k == 2 and special in ("inf", "all"):
                    v = float("-inf")
            vals.append(v)
        cols.append(vals)
    bc = 40 + 59 * draw(unit)
    # whiskers at least 0.4 above the box coverage: closer values give
    # colliding "%0.1f%%" row labels in the stats table (not generated)
    wc = bc + 0.4 + (100 - bc - 0.4) * draw(unit)
    ng = draw(st.integers(2, 5))
    by = [draw(st.integers(0, ng - 1)) if draw(st.integers(0, 2))
          else 0 for _ in range(nrow)]
    return {"cols": cols, "bc": bc, "wc": min(wc, 100.0), "by": by,
            "draw": draw(st.integers(0, 4)),
            "container": draw(st.sampled_from(["frame", "array"]))}


def ref_stats(v, bc, wc):
    v = v[np.isfinite(v)]
    q = [(100 - wc) / 2, (100 - bc) / 2, 50, 100 - (100 - bc) / 2,
         100 - (100 - wc) / 2]
    if len(v) > 3:
        return np.percentile(v, q), len(v), v.mean(), v.max(), v.min()
    return None, len(v), None, None, None


def labs(bc, wc):
    return ["%0.1f%%" % x for x in [(100 - wc) / 2, (100 - bc) / 2, 50,
                                    100 - (100 - bc) / 2,
                                    100 - (100 - wc) / 2]]


def check_column(s, v, bc, wc, what):
    q, cnt, mean, mx, mn = ref_stats(v, bc, wc)
    if s["count"] != cnt:
        raise Violation(f"{what}: count {s['count']!r}, finite values {cnt}")
    L = labs(bc, wc)
    if len(set(L)) < 5:
        return      # percentile labels collide after rounding: not judged
    # (the by-table is a pivot table: rows that are NaN for every group are
    # dropped by pandas, a missing row is read as NaN)
    vals = np.array([s.get(l, np.nan) for l in L], dtype=np.float64)
    if q is None:
        if not (np.isnan(vals).all() and np.isnan(s.get("mean", np.nan))):
            raise Violation(f"{what}: fewer than 4 finite values but stats "
                            f"{vals}")
        return
    sc = max(1., np.abs(q).max())
    if not np.allclose(vals, q, atol=1e-9 * sc, rtol=0):
        raise Violation(f"{what}: percentiles {vals.tolist()} != numpy "
                        f"percentiles of the finite values {q.tolist()} "
                        f"(coverages {bc}, {wc})")
    if not (abs(s["mean"] - mean) <= 1e-9 * sc and s["max"] == mx
            and s["min"] == mn):
        raise Violation(f"{what}: mean/max/min {s['mean']}, {s['max']}, "
                        f"{s['min']} != {mean}, {mx}, {mn}")
    if np.any(np.diff(vals) < 0) or vals[0] < mn or vals[-1] > mx:
        raise Violation(f"{what}: percentiles not ordered within [min, max]")


def box_oracle(case):
    import matplotlib
    matplotlib.use("Agg")
    cols = [np.array(c, dtype=np.float64) for c in case["cols"]]
    nrow = len(cols[0])
    bc, wc = case["bc"], case["wc"]
    if not wc > bc:
        raise Skip()
    arr = np.column_stack(cols) if nrow else np.zeros((0, len(cols)))
    data = pd.DataFrame(arr, columns=[f"c{i}" for i in range(len(cols))]) \
        if case["container"] == "frame" else arr
    labels = []
    nt = False
    # display options do not enter the summaries
    OPTS = [{}, {"style": "narrow"}, {"show_mean": True, "show_text": True},
            {"width_from_count": True, "show_median": False},
            {"style": "narrow", "show_mean": True, "number_format": "0.4f",
             "center_text": False, "linewidth": 1}]
    opts = OPTS[case.get("draw", 0) % len(OPTS)] if nrow else {}
    if opts:
        labels.append("display-options:" + ",".join(sorted(opts)))
    st_ = boxplot.Boxplot(data, box_coverage=bc, whiskers_coverage=wc,
                          **opts).stats
    if st_.shape[1] != len(cols):
        raise Violation(f"stats has {st_.shape[1]} columns")
    if nrow == 0:
        # pandas does not call the summary function on a frame without rows:
        # the class returns an empty table (the function itself is checked
        # on the empty column below). Not judged, counted.
        labels.append("empty-frame:class-not-judged")
    for j, v in enumerate(cols):
        if nrow == 0:
            break
        check_column(st_.iloc[:, j], v, bc, wc, f"column {j}")
        if np.isinf(v).any():
            nt = True
            labels.append("inf-in-column")
        fin = v[np.isfinite(v)]
        if len(fin) and len(set(fin.tolist())) < len(fin):
            nt = True
    # drawing (linear and log axis) leaves the summaries as they were
    if nrow > 0 and case.get("draw", 0) == 0:
        import matplotlib.pyplot as plt
        bp = boxplot.Boxplot(data, box_coverage=bc, whiskers_coverage=wc)
        before = bp.stats.copy()
        for log in (False, True):
            fig, ax = plt.subplots()
            try:
                bp.draw(ax=ax, logscale=log)
            except Exception:
                labels.append("draw:raised")
            finally:
                plt.close(fig)
            if not before.equals(bp.stats):
                raise Violation(f"Boxplot.draw(logscale={log}) changed "
                                f"Boxplot.stats:\n{before}\n->\n{bp.stats}")
        labels.append("stats-after-draw")
    # the function itself
    s = boxplot.boxplot_stats(cols[0].copy(), bc, wc)
    check_column(s, cols[0], bc, wc, "boxplot_stats")
    # groups
    by = np.array(case["by"], dtype=int)
    cats = np.unique(by) if nrow else []
    if len(cats) >= 2:
        v = cols[0]
        # values and categories as two series sharing an index: the default
        # one, a permuted one, dates, strings (two columns of a frame that
        # was sorted or filtered), or the categories as a plain array / list
        how = ["default", "permuted", "dates", "strings", "array",
               "list"][case.get("draw", 0) % 6 if nrow > 1 else 0]
        labels.append(f"by-index:{how}")
        if how == "permuted":
            ix = pd.Index(((np.arange(nrow) * 7 + 3) % nrow)
                          if math.gcd(7, nrow) == 1 else
                          np.arange(nrow)[::-1])
        elif how == "dates":
            ix = pd.date_range("2001-03-01", periods=nrow, freq="D")
        elif how == "strings":
            ix = pd.Index([f"r{(k * 5) % 97}_{k}" for k in range(nrow)])
        else:
            ix = pd.RangeIndex(nrow)
        ser = pd.Series(v.copy(), index=ix)
        byarg = by.copy() if how == "array" else by.tolist() \
            if how == "list" else pd.Series(by, index=ix)
        stb = boxplot.Boxplot(ser, by=byarg,
                              box_coverage=bc, whiskers_coverage=wc).stats
        for cat in cats:
            if cat not in stb.columns:
                raise Violation(f"group {cat} missing from the by-stats "
                                f"{stb.columns.tolist()}")
            check_column(stb[cat], v[by == cat], bc, wc, f"group {cat}")
        labels.append(f"groups:{len(cats)}")
        if len(cats) >= 3:
            nt = True
    return {"nt": nt, "labels": sorted(set(labels))}


# -------------------------------------------------------------------- violin
def violin_oracle(case):
    import matplotlib
    matplotlib.use("Agg")
    cols = [np.array(c, dtype=np.float64) for c in case["cols"]]
    nrow = len(cols[0])
    if nrow == 0:
        raise Skip()
    arr = np.column_stack(cols)
    data = pd.DataFrame(arr, columns=[f"c{i}" for i in range(len(cols))])
    labels = [f"rows:{'odd' if nrow % 2 else 'even'}"]
    np.random.seed(nrow)
    def spread_ok(c):
        """>= 3 distinct finite values whose variance is an ordinary float
        (a kernel density needs the variance and its inverse: subnormal or
        1e300-scale samples, or a spread below rounding of the mean, are
        numerically degenerate)"""
        f = c[np.isfinite(c)]
        if len(set(f.tolist())) < 3:
            return False
        with np.errstate(all="ignore"):
            v = float(np.var(f))
            m = float(np.max(np.abs(f)))
        return 1e-200 < v < 1e200 and math.sqrt(v) > 1e-7 * m
    ok = [spread_ok(c) for c in cols]
    try:
        # display options (number of points of the density curve, rows
        # used to estimate it) never change the summaries
        vopt = [{}, {}, {"npoints_kde": 50}, {"nresample_kde": 10},
                {"npoints_kde": 1000, "nresample_kde": max(1, nrow // 2)},
                {"nresample_kde": nrow}, {"show_text": False}][
                    (nrow + len(cols)) % 7]
        if vopt:
            labels.append("options:" + ",".join(sorted(vopt)))
        vl = violinplot.Violin(data, **vopt)
    except Exception as e:
        if all(ok):
            raise Violation(f"Violin raised {type(e).__name__}: "
                            f"{str(e)[:200]} on {nrow} rows although every "
                            "column has >= 3 distinct finite values of "
                            "ordinary spread")
        labels.append("degenerate-column:raised")
        return {"nt": False, "labels": labels}
    if case.get("draw", 0) == 0:
        import matplotlib.pyplot as plt
        before = vl.stats.copy()
        fig, ax = plt.subplots()
        try:
            vl.draw(ax=ax)
        except Exception:
            labels.append("draw:raised")
        finally:
            plt.close(fig)
        if not before.equals(vl.stats):
            raise Violation("Violin.draw changed Violin.stats")
    st_ = vl.stats
    nt = False
    for j, v in enumerate(cols):
        fin = v[np.isfinite(v)]
        name = f"c{j}"
        if len(fin):
            q = np.percentile(fin, [0, 25, 50, 75, 100])
            got = st_[name].values.astype(np.float64)
            if st_.shape[0] != 5 or not np.allclose(
                    got, q, atol=1e-9 * max(1., np.abs(q).max()), rtol=0):
                raise Violation(
                    f"violin stats of column {j} {got.tolist()} != 0/25/50/"
                    f"75/100 % quantiles of the finite values {q.tolist()}")
        if np.isinf(v).any():
            nt = True
            labels.append("inf-in-column")
        if not ok[j]:
            labels.append("degenerate-column:nan-profile-or-any")
            continue
        x = vl.kde_x[name].values.astype(np.float64)
        y = vl.kde_y[name].values.astype(np.float64)
        if np.isnan(x).any() or np.isnan(y).any():
            raise Violation(f"violin profile of column {j} contains NaN")
        if y.min() < -1e-12 or y.max() > 1 + 1e-12 or \
                abs(y.min()) > 1e-12 or abs(y.max() - 1) > 1e-12:
            raise Violation(f"kde_y of column {j} spans [{y.min()}, "
                            f"{y.max()}], expected [0, 1]")
        if np.any(np.diff(x) < 0) or x[0] < fin.min() - 1e-5 or \
                x[-1] > fin.max() + 1e-5:
            raise Violation(f"kde_x of column {j} not sorted within "
                            "[min, max]")
    return {"nt": nt or nrow > 100, "labels": sorted(set(labels))}


@st.composite
def violin_case(draw, tier):
    return draw(frame_case(tier, maxrows=520))


SUBS = [
    Sub("C20.lhs+ppos", lhs_oracle, strategy=lhs_case, n=(300, 4000),
        shards=(8, 16)),
    Sub("C20.standard_normal+pareto_front", rank_oracle, strategy=rank_case,
        n=(250, 3000), shards=(8, 16)),
    Sub("C20.boxplot-stats", box_oracle, strategy=frame_case, n=(120, 2000),
        shards=(16, 16)),
    Sub("C20.violin-stats", violin_oracle, strategy=violin_case,
        n=(50, 1000), shards=(16, 16)),
]
