"""Shared generators for the transform properties (C01, C02, C12c).

A *setting* is {"p": {name: value}, "u": [floats in [-1, 1]]}: parameter and
constant values by name plus normalised coordinates.  `points()` maps the
coordinates to domain points of the transform *constructed in the
transformed variable*, so that the conditioning region stated in the
property holds by construction (DESIGN.md section 3, C01).
"""
import math

import numpy as np
from hypothesis import strategies as st

from vf.core import Skip
from hydrodiy.stat import transform as T

EPS = 1e-10
eps = float(np.finfo(float).eps)

CLASSES = ["Identity", "Logit", "Log", "BoxCox2", "BoxCox1lam", "BoxCox1nu",
           "BoxCox2sym", "YeoJohnson", "Reciprocal", "Softmax", "Sinh",
           "LogSinh", "Manly"]
POWER = ["BoxCox2", "BoxCox1lam", "BoxCox1nu", "BoxCox2sym"]

unit = st.floats(0., 1., allow_nan=False)
sunit = st.floats(-1., 1., allow_nan=False)


def logu(u, lo, hi):
    """u in [0,1] -> log-uniform value in [lo, hi]"""
    v = math.exp(math.log(lo) + u * (math.log(hi) - math.log(lo)))
    return min(max(v, lo), hi)


def pow2(v):
    return 2.0 ** np.floor(np.log2(v))


# ------------------------------------------------------------- parameters
LAM_SPECIAL = [0., 1e-11, -1e-11, 1.0001e-10, -1.0001e-10, 2e-10, -2e-10,
               1e-8, 1e-6, 1e-3, -1e-3, 0.5, 1., 2., 3., -1.]
# (isclose(lam, 2) holds up to |lam - 2| = 1e-8 + 2e-5; isclose(lam, 0) up
# to 1e-8)
YJ_SPECIAL = [0., 1e-9, -1e-9, 2e-8, -2e-8, 2., 2 - 1e-9, 2 + 1e-9,
              2 - 1e-6, 2 + 1e-6, 2 - 1e-4, 2 + 1e-4, -1., 3., 1., 0.5, 1.5,
              2 - 1e-5, 2 + 1e-5, 2 - 2e-5, 2 + 2e-5, 2 - 2.1e-5, 2 + 2.1e-5,
              1e-5, -1e-5]
MANLY_SPECIAL = [0., 1e-3, -1e-3, 5., -5., 1., 0.1]


@st.composite
def ctor_args(draw, cls):
    if cls == "Log":
        return {"mininu": draw(st.sampled_from([EPS, 1e-3, 0.5])),
                "base": draw(st.sampled_from([None, 2., 10., 1.5, 0.5]))}
    if cls in POWER:
        return {"mininu": draw(st.sampled_from([EPS, 1e-3, 0.5])),
                "minilam": draw(st.sampled_from([0., -1., -2.5]))}
    if cls == "Reciprocal":
        return {"mininu": draw(st.sampled_from([EPS, 1e-3, 0.5]))}
    return {}


@st.composite
def special_or(draw, specials, lo, hi):
    """40 % special values (inside [lo, hi]), otherwise uniform."""
    sp = [v for v in specials if lo <= v <= hi]
    if sp and draw(st.integers(0, 9)) < 4:
        return draw(st.sampled_from(sp))
    return lo + draw(unit) * (hi - lo)


@st.composite
def shift_nu(draw, mininu):
    k = draw(st.integers(0, 4))
    if k == 0:
        return mininu
    if k == 1:
        # round values (exactly 1, 10, 0.5 ...) that code may single out
        v = draw(st.sampled_from([1., 1., 0.5, 2., 10., 0.1, 100., 0.01]))
        if v >= mininu:
            return v
    return mininu + logu(draw(unit), 1e-6, 1e3)


@st.composite
def params(draw, cls, ctor):
    if cls in ("Identity", "Softmax"):
        return {}
    if cls == "Logit":
        lower = draw(st.sampled_from([0., 0., 1e3, -1e6, None]))
        if lower is None:
            lower = 100 * (draw(sunit) * 3)
        ld = draw(special_or([-10., 10., 0.], -10., 10.))
        return {"lower": lower, "logdelta": ld}
    if cls == "Log":
        return {"nu": draw(shift_nu(ctor["mininu"]))}
    if cls in POWER:
        return {"nu": draw(shift_nu(ctor["mininu"])),
                "lam": draw(special_or(LAM_SPECIAL, ctor["minilam"], 3.))}
    if cls == "YeoJohnson":
        nu = draw(st.sampled_from([0., None, None, 1., -1.]))
        if nu is None:
            nu = 30 * draw(sunit)
        sc = draw(st.sampled_from([1e-5, 1., None, None, 2., 0.5, 10.]))
        if sc is None:
            sc = logu(draw(unit), 1e-5, 1e3)
        return {"nu": nu, "scale": sc,
                "lam": draw(special_or(YJ_SPECIAL, -1., 3.))}
    if cls == "Reciprocal":
        return {"nu": draw(shift_nu(ctor["mininu"]))}
    if cls == "Sinh":
        nu = draw(st.sampled_from([0., None, None, 1., -1.]))
        if nu is None:
            nu = 30 * draw(sunit)
        sc = draw(st.sampled_from([1e-10, 1., None, None, 1e10, 2., 0.5]))
        if sc is None:
            sc = logu(draw(unit), 1e-10, 1e10)
        return {"nu": nu, "scale": sc}
    if cls == "LogSinh":
        return {"loga": draw(special_or([-20., 0., -1.], -20., 0.)),
                "logb": draw(special_or([-5., 5., 0.], -5., 5.)),
                "xmax": draw(st.one_of(
                    st.sampled_from([1., 10., 100., 0.5]),
                    st.builds(lambda u: logu(u, 1e-3, 1e4), unit),
                    st.builds(lambda u: logu(u, 1e-3, 1e4), unit)))}
    if cls == "Manly":
        lam = draw(special_or(MANLY_SPECIAL, -5., 5.))
        if lam != 0 and abs(lam) < 1e-3:
            lam = math.copysign(1e-3, lam)
        # (xmax from a millimetre to the largest volumes in cubic metres)
        return {"lam": lam, "xmax": draw(st.one_of(
            st.builds(lambda u: logu(u, 1e-3, 1e4), unit),
            st.builds(lambda u: logu(u, 1e4, 1e12), unit),
            st.sampled_from([1., 100., 1e7, 1e9, 1e12])))}
    raise KeyError(cls)


@st.composite
def coords(draw, cls, nmin=1, nmax=20):
    if cls == "Softmax":
        k = draw(st.integers(1, 4))
        nrow = draw(st.integers(1, 3))
        return [[draw(unit) for _ in range(k + 1)] for _ in range(nrow)]
    n = draw(st.integers(nmin, nmax))
    return [draw(sunit) for _ in range(n)]


@st.composite
def transform_case(draw, cls, nsettings=2, nmin=1, nmax=20):
    ctor = draw(ctor_args(cls))
    settings = []
    for _ in range(nsettings):
        settings.append({"p": draw(params(cls, ctor)),
                         "u": draw(coords(cls, nmin, nmax))})
    return {"cls": cls, "ctor": ctor, "settings": settings,
            "via": draw(st.sampled_from(["class", "get_transform"])),
            "how": draw(st.sampled_from(["by-name", "by-name", "vector",
                                         "attribute"]))}


# ------------------------------------------------------------- construction
def make(case):
    """Instance for the first setting of the case."""
    cls, ctor = case["cls"], dict(case["ctor"])
    p = case["settings"][0]["p"]
    if case["via"] == "get_transform":
        return T.get_transform(cls, **ctor, **p)
    t = getattr(T, cls)(**ctor)
    apply(t, p)
    return t


def apply(t, p, how="by-name"):
    """Set parameters / constants on an existing instance: by key, by
    attribute, or by assigning the whole parameter / constant vectors."""
    if how == "vector":
        for vec in (t.params, t.constants):
            if vec.nval and all(str(n) in p for n in vec.names):
                # given as a float64 array that the caller then reuses for
                # something else
                arr = np.array([p[str(n)] for n in vec.names],
                               dtype=np.float64)
                vec.values = arr
                arr[:] = np.nan
            else:
                for n in vec.names:
                    if str(n) in p:
                        vec[str(n)] = p[str(n)]
        return
    for k, v in p.items():
        if how == "attribute":
            setattr(t, k, v)
        else:
            t[k] = v


def getp(t, name):
    return float(t[name])


# ------------------------------------------------------------- domain points
def points(t, case, setting, abs_guard=True, manly_low=-13.8):
    """Domain points for the current parameter values of t.

    Returns dict with
      x    : array of domain points (2-D for Softmax)
      sx   : magnitude the inverse has to resolve at each point
      loc  : local length scale of the argument (finite-difference step)
      lab  : classification labels (branches exercised)
    """
    cls = case["cls"]
    u = np.asarray(setting["u"], dtype=np.float64)
    lab = []
    if cls == "Identity":
        x = u * 1e6
        return dict(x=x, sx=np.abs(x) + 1, loc=np.abs(x) + 1, lab=lab)

    if cls == "Logit":
        lower, ld = getp(t, "lower"), getp(t, "logdelta")
        delta = math.exp(ld)
        # relative position of the points closest to the ends: rounding of
        # lower + delta*p; the Jacobian also has an absolute 1e-10 guard at
        # both ends (abs_guard)
        eta = 4e8 * eps * (abs(lower) + delta) / delta
        if abs_guard:
            eta = max(eta, 1e-9 / delta)
        eta = max(eta, 1e-13)
        if eta >= 0.25:
            # x - lower is ill conditioned on more than 3/4 of the interval
            raise Skip()
        Y = min(30., -math.log(eta))
        y0 = u * Y
        x = lower + delta / (1 + np.exp(-y0))
        x = x[(x > lower) & (x < lower + delta)]
        if len(x) == 0:
            raise Skip()
        d = np.minimum(x - lower, lower + delta - x)
        return dict(x=x, sx=np.abs(x) + delta, loc=d, lab=lab,
                    lower=lower, upper=lower + delta)

    if cls == "Log":
        nu = getp(t, "nu")
        mininu = case["ctor"]["mininu"]
        # shifted argument from 1e-9 to 1e130
        z = np.exp(np.where(u < 0, u * 20., u * 300.))
        z = z[z > mininu * 1.001]
        if len(z) == 0:
            raise Skip()
        lab.append(f"base:{case['ctor']['base']}")
        return dict(x=z - nu, sx=np.abs(z - nu) + nu, loc=z, lab=lab, z=z,
                    mininu=mininu)

    if cls in POWER:
        nu, lam = getp(t, "nu"), getp(t, "lam")
        mininu = case["ctor"]["mininu"]
        Lmax = 20. if abs(lam) < 1e-12 else min(20., 13.8 / abs(lam))
        Llo, Lhi = -Lmax, Lmax
        lab.append("lam:" + lam_class(lam))
        if cls == "BoxCox2sym":
            # value is BC(|x|) - BC(0): keep eps*|BC(0)| below 1e-9 of the
            # local scale of the inverse
            y0 = abs(math.log(nu)) if abs(lam) <= EPS \
                else abs(math.expm1(lam * math.log(nu)) / lam)
            K = math.log(1e-9 / (eps * max(y0, 1e-300)))
            if lam > 0:
                Llo = max(Llo, -K / lam)
            elif lam < 0:
                Lhi = min(Lhi, K / (-lam))
            elif K < 0:
                raise Skip()
        Llo = max(Llo, math.log(mininu * 1.001))
        if Llo >= Lhi:
            raise Skip()
        L = Llo + (u + 1) / 2 * (Lhi - Llo)
        z = np.exp(L)
        if cls == "BoxCox2sym":
            ax = z - nu
            ok = ax > 0
            if not ok.any():
                raise Skip()
            sg = np.where(np.arange(len(z)) % 2 == 0, 1., -1.)
            x = (sg * ax)[ok]
            z = z[ok]
            return dict(x=x, sx=np.abs(x) + nu, loc=z, lab=lab, z=z,
                        mininu=mininu)
        return dict(x=z - nu, sx=np.abs(z - nu) + nu, loc=z, lab=lab, z=z,
                    mininu=mininu)

    if cls == "YeoJohnson":
        nu, sc, lam = getp(t, "nu"), getp(t, "scale"), getp(t, "lam")
        sgn = np.where(u >= 0, 1., -1.)
        expo = np.where(sgn > 0, lam, 2 - lam)
        Lmax = np.where(np.abs(expo) < 1e-12, 20.,
                        np.minimum(20., 13.8 / np.maximum(np.abs(expo),
                                                          1e-300)))
        w = sgn * np.expm1(np.abs(u) * Lmax)
        x = (w - nu) / sc
        lab.append("yjlam:" + yj_class(lam))
        if (w >= EPS).any():
            lab.append("yj:positive-branch")
        if (w < EPS).any():
            lab.append("yj:negative-branch")
        return dict(x=x, sx=(np.abs(w) + 1 + abs(nu)) / sc,
                    loc=(np.abs(w) + 1) / sc, lab=lab, w=w)

    if cls == "LogSinh":
        loga, logb = getp(t, "loga"), getp(t, "logb")
        xmax = getp(t, "xmax")
        a, b = math.exp(loga), math.exp(logb)
        # w = a + b*x/xmax from 1e-4 (stated bound) to 5e3: sinh(w)
        # overflows beyond 710 but log(sinh(w)) = w - ln 2 does not
        w = np.exp(math.log(1e-4) + (u + 1) / 2 * (math.log(5e3)
                                                   - math.log(1e-4)))
        lab.append("logsinh:w>710" if (w > 710.5).any()
                   else "logsinh:w<=710")
        x = (w - a) / b * xmax
        return dict(x=x, sx=np.abs(x) + xmax * a / b + xmax / b * w,
                    loc=w * xmax / b, lab=lab, w=w)

    if cls == "Reciprocal":
        nu = getp(t, "nu")
        mininu = case["ctor"]["mininu"]
        # x + nu from 1e-8 (the lower end of the domain is x > -nu, whatever
        # mininu) up to just below 1/mininu (backward needs y < -mininu)
        lo, hi = 1e-8, min(1e8, 0.999 / mininu)
        z = np.exp(math.log(lo) + (u + 1) / 2 * (math.log(hi) - math.log(lo)))
        return dict(x=z - nu, sx=np.abs(z - nu) + nu, loc=z, lab=lab, z=z,
                    mininu=mininu)

    if cls == "Sinh":
        nu, sc = getp(t, "nu"), getp(t, "scale")
        sg = np.where(u >= 0, 1., -1.)
        # scaled argument (x - nu)*scale from 1e-30 to 1e12 in magnitude
        # (asinh(v) = v to rounding below 1e-8: no digit may be lost there)
        v = sg * np.exp(math.log(1e-30) + np.abs(u) * (math.log(1e12)
                                                       - math.log(1e-30)))
        x = v / sc + nu
        return dict(x=x, sx=np.abs(x - nu) + abs(nu),
                    loc=np.maximum(np.abs(v), 1.) / sc, lab=lab, v=v)

    if cls == "Manly":
        lam, xmax = getp(t, "lam"), getp(t, "xmax")
        lab.append("manly:lam=0" if lam == 0 else "manly:lam!=0")
        if lam == 0:
            v = u * 1e3
            return dict(x=v * xmax, sx=np.abs(v * xmax) + xmax,
                        loc=np.full(len(u), xmax), lab=lab)
        # t = lam*x/xmax from -13.8 (the map flattens towards -1/lam) to
        # 600 (exp overflows beyond 709)
        # (manly_low: the Jacobian exp(t)/xmax stays positive far below
        # the point where forward flattens; used by C02 only)
        t = np.where(u < 0, -u * manly_low, u * 600.)
        v = t / lam
        lab.append("manly:lam*x>13.8" if (t > 13.8).any()
                   else "manly:lam*x<=13.8")
        return dict(x=v * xmax, sx=np.abs(v * xmax) + xmax / abs(lam),
                    loc=np.full(len(u), xmax / abs(lam)), lab=lab, t=t)

    if cls == "Softmax":
        raw = np.exp(math.log(1e-6) * (1 - np.asarray(setting["u"],
                                                      dtype=np.float64)))
        raw = raw / raw.sum(axis=1)[:, None]
        x = np.ascontiguousarray(raw[:, :-1])
        if (x.sum(axis=1) > 1 - 1e-6).any():
            raise Skip()
        return dict(x=x, sx=x, loc=np.minimum(x, (1 - x.sum(axis=1))[:, None]),
                    lab=lab)
    raise KeyError(cls)


def lam_class(lam):
    if lam == 0:
        return "0"
    if abs(lam) <= EPS:
        return "below-switch"
    if abs(lam) <= 1e-6:
        return "just-above-switch"
    if lam < 0:
        return "negative"
    return "regular"


def yj_class(lam):
    if np.isclose(lam, 0.0):
        return "isclose0"
    if np.isclose(lam, 2.0):
        return "isclose2"
    if abs(lam) < 1e-3 or abs(lam - 2) < 1e-3:
        return "near-switch"
    return "regular"


def is_default(t):
    if t.params.nval == 0:
        return False
    d = t.params.defaults
    v = t.params.values
    return bool(np.all((v == d) | (np.isnan(v) & np.isnan(d))))
