"""C18 - computations leave their arguments untouched and are repeatable."""
import os

import numpy as np
import pandas as pd
from hypothesis import strategies as st

from vf.core import Sub, Violation, Skip

import matplotlib
matplotlib.use("Agg")
import matplotlib.pyplot as plt

from hydrodiy.stat import metrics, sutils, armodels, transform
from hydrodiy.data import dutils, qualitycontrol, signatures
from hydrodiy.gis.grid import (Grid, Catchment, accumulate, voronoi, slope,
                               delineate_river, gsmooth)
from hydrodiy.gis import gutils
from hydrodiy.plot import putils, boxplot, violinplot

PROPERTY = "C18"
RULE = ("A registry of call specifications (about 120) covering the public "
        "functions named in the property (metrics, sutils, armodels, "
        "transform methods, dutils, qualitycontrol, signatures, Grid / "
        "Catchment methods and grid-level functions, gutils, box plot / "
        "violin / putils). Hypothesis draws the specification, the data "
        "(unsorted values, sizes 5..40, ensembles of 2..5 members) and the "
        "argument variant: C-contiguous / Fortran-ordered / strided view x "
        "float64 / float32 / int64 / int32 x ndarray / Series / DataFrame x "
        "content (as drawn / NaN first / negative first / NaN scattered). "
        "Oracle: snapshot (bytes, dtype, shape, strides, index/columns; cell "
        "values and no-data for Grid arguments) of every argument before the "
        "call, after the first and after the second call - all equal; the "
        "two calls (np.random.seed re-applied when the function is random) "
        "return equal results (NaN-aware); a call that raises must raise "
        "both times and still leave its arguments unchanged. Non-trivial = "
        "the variant is one the wrapper does not copy implicitly (float64, "
        "C-contiguous ndarray).")

LAYOUTS = ["C", "F", "strided"]
DTYPES = ["float64", "float64", "float32", "int64", "int32"]
CONTAINERS = ["ndarray", "ndarray", "series", "frame"]
# content of float arguments: as generated, or with a missing / negative
# first value, or NaN scattered (functions may reject them - consistently)
CONTENTS = ["plain", "plain", "nan-first", "neg-first", "nan-some"]


# ------------------------------------------------------------------ snapshots
def snap(a):
    if isinstance(a, np.ndarray):
        return ("nd", a.dtype.str, a.shape, a.strides, a.tobytes())
    if isinstance(a, pd.Series):
        return ("se", str(a.dtype), a.shape, np.asarray(a.values).tobytes(),
                tuple(map(str, a.index)), str(a.name))
    if isinstance(a, pd.DataFrame):
        return ("df", tuple(map(str, a.dtypes)), a.shape,
                np.asarray(a.values).tobytes(), tuple(map(str, a.index)),
                tuple(map(str, a.columns)))
    if isinstance(a, Grid):
        d = np.asarray(a.data)
        return ("grid", d.shape, d.astype(np.float64).tobytes(),
                repr(float(a.nodata)), (float(a.cellsize), float(a.xllcorner),
                                        float(a.yllcorner)))
    if isinstance(a, pd.DatetimeIndex):
        return ("dti", str(a.dtype), tuple(a.asi8))
    if isinstance(a, (list, tuple)):
        return ("seq", tuple(snap(x) for x in a))
    return ("other", repr(a))


def same(r1, r2):
    if isinstance(r1, tuple) or isinstance(r1, list):
        return len(r1) == len(r2) and all(same(a, b)
                                          for a, b in zip(r1, r2))
    if isinstance(r1, (pd.Series, pd.DataFrame)):
        return r1.equals(r2)
    if isinstance(r1, Grid):
        return np.array_equal(r1.data, r2.data, equal_nan=True)
    if isinstance(r1, dict):
        return set(r1) == set(r2) and all(same(r1[k], r2[k]) for k in r1)
    if r1 is None:
        return r2 is None
    try:
        a1 = np.asarray(r1, dtype=np.float64)
        a2 = np.asarray(r2, dtype=np.float64)
    except (TypeError, ValueError):
        return repr(r1) == repr(r2)
    return a1.shape == a2.shape and np.array_equal(a1, a2, equal_nan=True)


# -------------------------------------------------------------- data variants
class Data:
    """Base arrays of a case and the variant maker."""

    def __init__(self, case):
        self.case = case
        self.n = len(case["obs"])
        self.obs = np.array(case["obs"], dtype=np.float64)
        self.ens = np.array(case["ens"], dtype=np.float64)
        rep = case.get("rep", 1)
        if rep > 1:
            # long record: the drawn block repeated with offsets (values
            # stay distinct where they were)
            self.obs = np.concatenate([self.obs + 101.0 * j
                                       for j in range(rep)])
            self.ens = np.vstack([self.ens + 101.0 * j + 0.37 * (j % 3)
                                  for j in range(rep)])
            self.n = len(self.obs)
        self.sim = self.obs + 0.3 * self.ens[:, 0]
        self.m = self.ens.shape[1]

    def V(self, a, containers=("ndarray", "series", "frame"),
          dtypes=("float64", "float32", "int64", "int32"), intscale=True,
          inject=True):
        """Variant of array a chosen by the case (restricted to what the
        spec declares meaningful)."""
        c = self.case
        dt = c["dtype"] if c["dtype"] in dtypes else "float64"
        a = np.asarray(a)
        if dt.startswith("int") and intscale:
            a = np.round(a * 10)
        a = a.astype(dt)
        cont_ = c.get("content", "plain")
        if a.dtype.kind == "f" and a.size and cont_ != "plain" and inject:
            a = a.copy()
            if cont_ == "nan-first":
                a.flat[0] = np.nan
            elif cont_ == "neg-first":
                a.flat[0] = -abs(a.flat[0]) - 9999.
            elif cont_ == "nan-some":
                a.flat[::3] = np.nan
        lay = c["layout"]
        if lay == "F" and a.ndim == 2:
            a = np.asfortranarray(a)
        elif lay == "strided" or (lay == "F" and a.ndim == 1):
            big = np.zeros(tuple(2 * s for s in a.shape), dtype=a.dtype)
            if a.ndim == 1:
                big[::2] = a
                a = big[::2]
            else:
                big[::2, ::2] = a
                a = big[::2, ::2]
        else:
            a = np.ascontiguousarray(a)
        cont = c["container"] if c["container"] in containers else "ndarray"
        if cont == "series" and a.ndim == 1:
            return pd.Series(a)
        if cont in ("series", "frame") and a.ndim == 2:
            return pd.DataFrame(a)
        if cont == "frame" and a.ndim == 1:
            return pd.Series(a, name="x")
        return a

    def plain(self):
        c = self.case
        return (c["dtype"] == "float64" and c["layout"] == "C"
                and c["container"] == "ndarray")


SPECS = {}
GROUPS = {}


def spec(name, group, seeded=False):
    def deco(fn):
        SPECS[name] = (fn, seeded)
        GROUPS.setdefault(group, []).append(name)
        return fn
    return deco


ND = ("ndarray",)
FL = ("float64", "float32")


# ------------------------------------------------------------------- metrics
def _ens_specs():
    table = {
        "crps": lambda o, e: metrics.crps(o, e),
        "dscore": lambda o, e: metrics.dscore(o, e),
        "pit": lambda o, e: metrics.pit(o, e),
        "pit_random": lambda o, e: metrics.pit(o, e, random=True),
        "alpha_cv": lambda o, e: metrics.alpha(o, e),
        "alpha_ks": lambda o, e: metrics.alpha(o, e, type="KS"),
        "alpha_ad": lambda o, e: metrics.alpha(o, e, type="AD"),
        "iqr": lambda o, e: metrics.iqr(e, e + 1),
        "corr": lambda o, e: metrics.corr(o, e),
        "corr_spearman_mean": lambda o, e: metrics.corr(
            o, e, stat="mean", type="Spearman"),
    }
    for nm, f in table.items():
        def make(d, f=f):
            return [d.V(d.obs, containers=("ndarray", "series")),
                    d.V(d.ens, containers=("ndarray", "frame"))], f
        SPECS["metrics." + nm] = (make, nm.startswith(("pit_random",
                                                       "alpha")))
        GROUPS.setdefault("metrics", []).append("metrics." + nm)


_ens_specs()


def _det_specs():
    table = {
        "bias": lambda o, s: metrics.bias(o, s),
        "bias_log": lambda o, s: metrics.bias(np.abs(o) + 1, np.abs(s) + 1,
                                              type="log")
        if False else metrics.bias(o, s, type="normalised"),
        "nse": lambda o, s: metrics.nse(o, s),
        "kge": lambda o, s: metrics.kge(o, s),
        "nse_log": lambda o, s: metrics.nse(o, s, trans=transform.Log()),
        "kge_excl": lambda o, s: metrics.kge(o, s, excludenull=True),
        "abs_peak_err": lambda o, s: metrics.absolute_peak_error(
            o, s, winerase=3),
        "abs_peak_err_options": lambda o, s: metrics.absolute_peak_error(
            o, s, winerase=2, winpeakbefore=1, winpeakafter=2, neventmax=3),
        "rel_perc_err_modified": lambda o, s:
            metrics.relative_percentile_error(o, s, [20, 80], eps=0.1,
                                              modified=True, neval=7),
        "rel_perc_err": lambda o, s: metrics.relative_percentile_error(
            o, s, [10, 90]),
        "confusion": lambda o, s: metrics.confusion_matrix(
            np.asarray(o) > np.median(o), np.asarray(s) > np.median(o)),
        "goue": None,
    }
    table.pop("goue")
    for nm, f in table.items():
        def make(d, f=f):
            return [d.V(d.obs + 5, containers=("ndarray", "series")),
                    d.V(d.sim + 5, containers=("ndarray", "series"))], f
        SPECS["metrics." + nm] = (make, False)
        GROUPS.setdefault("metrics", []).append("metrics." + nm)


_det_specs()


# one series as an [n, 1] column array (a table column kept 2-D), the other
# 1-D: answered or refused, the column keeps its shape
def _column_specs():
    table = {"bias": metrics.bias, "nse": metrics.nse, "kge": metrics.kge,
             "corr": lambda o, s: metrics.corr(o, s)}
    for nm, f in table.items():
        for which in ("sim", "obs"):
            def make(d, f=f, which=which):
                o = d.obs + 5
                s_ = d.sim + 5
                if which == "sim":
                    return [d.V(o, containers=ND),
                            np.ascontiguousarray(s_[:, None])], f
                big = np.zeros((d.n, 3))
                big[:, 1] = o
                return [big[:, 1:2], d.V(s_, containers=ND)], f
            SPECS[f"metrics.{nm}_column_{which}"] = (make, False)
            GROUPS.setdefault("metrics", []).append(
                f"metrics.{nm}_column_{which}")


_column_specs()


@spec("metrics.ad_test", "metrics")
def _(d):
    u = (np.argsort(np.argsort(d.obs)) + 0.5) / d.n
    u = u[np.argsort(d.sim)]          # unsorted
    return [d.V(u, dtypes=FL, containers=("ndarray", "series"))], \
        metrics.anderson_darling_test


@spec("metrics.cvm_test", "metrics")
def _(d):
    u = (np.argsort(np.argsort(d.obs)) + 0.5) / d.n
    return [d.V(u[np.argsort(d.sim)], dtypes=FL, containers=ND)], \
        metrics.cramer_von_mises_test


@spec("metrics.binary", "metrics")
def _(d):
    t = np.abs(np.round(d.ens[:2, :2] * 10)).astype(np.int64) + 1
    return [d.V(t, dtypes=("int64", "int32", "float64"),
                containers=("ndarray", "frame"))], metrics.binary


# ------------------------------------------------------------ sutils/armodels
@spec("sutils.acf", "sutils")
def _(d):
    return [d.V(d.obs, containers=("ndarray", "series"))], \
        lambda x: sutils.acf(x, 3)


@spec("sutils.acf_idx", "sutils")
def _(d):
    return [d.V(d.obs, containers=ND), d.obs > np.median(d.obs)], \
        lambda x, i: sutils.acf(x, 2, idx=i)


@spec("sutils.lhs", "sutils", seeded=True)
def _(d):
    lo = d.V(np.sort(d.obs[:3]), containers=ND)
    return [lo, d.V(np.sort(d.obs[:3]) + 7, containers=ND)], \
        lambda a, b: sutils.lhs(7, a, b)


@spec("sutils.lhs_norm", "sutils", seeded=True)
def _(d):
    return [d.V(d.obs[:2], containers=ND, dtypes=FL),
            d.V(np.array([[2., .3], [.3, 1.]]), containers=ND, dtypes=FL)], \
        lambda m, c: sutils.lhs_norm(6, m, c)


@spec("sutils.standard_normal", "sutils")
def _(d):
    return [d.V(d.obs, containers=("ndarray", "series"))], \
        sutils.standard_normal


@spec("sutils.semicorr", "sutils")
def _(d):
    x = np.column_stack([d.obs - d.obs.mean(), d.sim - d.sim.mean()])
    return [d.V(x, containers=ND, dtypes=FL)], sutils.semicorr


@spec("sutils.pareto_front", "sutils")
def _(d):
    return [d.V(d.ens, containers=ND)], sutils.pareto_front


@spec("sutils.pareto_front_neg", "sutils")
def _(d):
    return [d.V(d.ens, containers=ND)], lambda x: sutils.pareto_front(x, -1)


@spec("sutils.lstsq", "sutils")
def _(d):
    return [d.V(d.ens[:, :2], containers=("ndarray", "frame"), dtypes=FL),
            d.V(d.obs, containers=("ndarray", "series"), dtypes=FL)], \
        sutils.lstsq


@spec("sutils.lstsq_intercept", "sutils")
def _(d):
    return [d.V(d.ens[:, :2], containers=("ndarray", "frame"), dtypes=FL),
            d.V(d.obs, containers=("ndarray", "series"), dtypes=FL)], \
        lambda X, y: sutils.lstsq(X, y, add_intercept=True)


@spec("armodels.sim", "sutils")
def _(d):
    return [np.array([0.5, 0.2]), d.V(d.obs, containers=ND)], \
        armodels.armodel_sim


@spec("armodels.residual", "sutils")
def _(d):
    return [np.array([0.5, -0.2, 0.1]), d.V(d.obs, containers=ND)], \
        armodels.armodel_residual


@spec("armodels.yule_walker", "sutils")
def _(d):
    return [d.V(np.array([1., 0.5, 0.2]), containers=ND, dtypes=FL)], \
        armodels.yule_walker


# ----------------------------------------------------------------- transforms
def _transform_specs():
    for cls in ["Identity", "Logit", "Log", "BoxCox2", "BoxCox2sym",
                "YeoJohnson", "Reciprocal", "Sinh", "LogSinh", "Manly",
                "BoxCox1lam", "BoxCox1nu", "Softmax"]:
        for meth in ["forward", "backward", "jacobian",
                     "backward_censored"]:
            if cls in ("YeoJohnson", "Softmax") and \
                    meth == "backward_censored":
                continue

            def make(d, cls=cls, meth=meth):
                t = transform.get_transform(cls)
                for k, v in (("xmax", 3.), ("nu", 0.1), ("lam", 0.3)):
                    if k in t.constants.names:
                        t[k] = v
                if cls == "Softmax":
                    x = np.abs(d.ens[:, :3]) + 0.1
                    x = x / (x.sum(axis=1)[:, None] + 1)
                    arg = d.V(x, dtypes=("float64",), containers=ND)
                else:
                    r = (np.argsort(np.argsort(d.obs)) + 0.5) / d.n
                    x = 0.05 + 0.9 * r[np.argsort(d.sim)]
                    arg = d.V(x, dtypes=("float64", "float32"),
                              containers=("ndarray", "series"))
                return [arg], getattr(t, meth)
            nm = f"transform.{cls}.{meth}"
            SPECS[nm] = (make, False)
            GROUPS.setdefault("transform", []).append(nm)

        # all methods in a row on an instance whose parameters were changed
        # after construction: the first call of the first run must equal the
        # first call of the second run (no dependence on the call history)
        def make_seq(d, cls=cls):
            t = transform.get_transform(cls)
            vals = {"xmax": 3., "nu": 0.3, "lam": 0.4, "scale": 2.,
                    "loga": -2., "logb": 0.5, "lower": -1., "logdelta": 1.}
            for k, v in vals.items():
                if k in t.params.names or k in t.constants.names:
                    t[k] = v
            if cls == "Softmax":
                x = np.abs(d.ens[:, :3]) + 0.1
                arg = np.ascontiguousarray(x / (x.sum(axis=1)[:, None] + 1))
            else:
                r = (np.argsort(np.argsort(d.obs)) + 0.5) / d.n
                arg = 0.05 + 0.9 * r[np.argsort(d.sim)]

            def run(x):
                j1 = t.jacobian(x)
                f1 = t.forward(x)
                b1 = t.backward(f1)
                j2 = t.jacobian(x)
                return [j1, f1, b1, j2]
            return [arg], run
        nm = f"transform.{cls}.all-methods-in-a-row"
        SPECS[nm] = (make_seq, False)
        GROUPS.setdefault("transform", []).append(nm)


_transform_specs()


# --------------------------------------------------------------------- dutils
def _idx(d):
    return np.repeat(np.arange(d.n // 4 + 1), 4)[:d.n].astype(np.int64)


@spec("dutils.aggregate", "dutils")
def _(d):
    return [d.V(_idx(d), dtypes=("int64", "int32"), containers=ND),
            d.V(d.obs, containers=ND)], dutils.aggregate


@spec("dutils.aggregate_max", "dutils")
def _(d):
    x = d.obs.copy()
    x[::5] = np.nan
    return [d.V(_idx(d), dtypes=("int64", "int32"), containers=ND),
            d.V(x, containers=ND, dtypes=FL)], \
        lambda i, x: dutils.aggregate(i, x, 2, 1)


@spec("dutils.flathomogen", "dutils")
def _(d):
    return [d.V(_idx(d), dtypes=("int64", "int32"), containers=ND),
            d.V(d.obs, containers=ND)], dutils.flathomogen


@spec("signatures.goue", "dutils")
def _(d):
    return [d.V(_idx(d), dtypes=("int64", "int32"), containers=ND),
            d.V(d.obs + 5, containers=ND, dtypes=FL)], signatures.goue


@spec("dutils.lag", "dutils")
def _(d):
    return [d.V(d.obs, containers=ND)], lambda x: dutils.lag(x, 2)


@spec("dutils.lag_neg", "dutils")
def _(d):
    return [d.V(d.ens, containers=ND, dtypes=FL)], \
        lambda x: dutils.lag(x, -1)


@spec("dutils.dayofyear", "dutils")
def _(d):
    return [pd.date_range("2001-01-01", periods=400 + d.n)], \
        dutils.dayofyear


@spec("dutils.compute_aggindex", "dutils")
def _(d):
    return [pd.date_range("2001-01-01", periods=40 + d.n)], \
        lambda t: dutils.compute_aggindex(t, "MS")


@spec("dutils.monthly2daily_flat", "dutils")
def _(d):
    se = pd.Series(np.abs(d.obs[:14 if d.n >= 14 else d.n]) + 1,
                   index=pd.date_range("2001-03-01",
                                       periods=min(14, d.n), freq="MS"))
    return [se], dutils.monthly2daily


@spec("dutils.monthly2daily_cubic", "dutils")
def _(d):
    se = pd.Series(np.abs(d.obs[:min(14, d.n)]) + 1,
                   index=pd.date_range("2001-03-01",
                                       periods=min(14, d.n), freq="MS"))
    return [se], lambda s: dutils.monthly2daily(s, "cubic")


@spec("dutils.water_year_end", "dutils")
def _(d):
    v = np.tile(np.abs(d.obs) + 1, 800 // d.n + 1)[:800]
    return [pd.Series(v, index=pd.date_range("2001-03-01", periods=800))], \
        dutils.water_year_end


@spec("dutils.var2h", "dutils")
def _(d):
    se = pd.Series(np.abs(d.obs) + 1,
                   index=pd.date_range("2001-03-01", periods=d.n,
                                       freq="17min"))
    return [se], dutils.var2h


@spec("dutils.var2h_rain", "dutils")
def _(d):
    se = pd.Series(np.abs(d.obs),
                   index=pd.date_range("2001-03-01 00:10", periods=d.n,
                                       freq="31min").as_unit("ns"))
    return [se], lambda s: dutils.var2h(s, 1800, rainfall=True)


@spec("dutils.sequence_true", "dutils")
def _(d):
    return [d.obs > np.median(d.obs)], dutils.sequence_true


@spec("qualitycontrol.ismisscens", "dutils")
def _(d):
    x = d.obs.copy()
    x[::4] = np.nan
    x[1::5] = 0.
    return [d.V(x, containers=("ndarray", "series"), dtypes=FL)], \
        qualitycontrol.ismisscens


@spec("qualitycontrol.islinear", "dutils")
def _(d):
    x = d.obs.copy()
    if d.n >= 8:
        x[2:7] = np.linspace(x[2], x[6], 5)
    return [d.V(x, containers=ND)], qualitycontrol.islinear


@spec("qualitycontrol.islinear_npoints", "dutils")
def _(d):
    return [d.V(np.round(d.obs), containers=ND)], \
        lambda x: qualitycontrol.islinear(x, 1)


@spec("signatures.eckhardt", "dutils")
def _(d):
    return [d.V(np.abs(d.obs) + 1, containers=ND)], signatures.eckhardt


# ---- the same functions with their rarely used options
@spec("signatures.eckhardt_options", "dutils")
def _(d):
    return [d.V(np.abs(d.obs) + 1, containers=ND)], \
        lambda x: signatures.eckhardt(x, thresh=0.9, tau=5, BFI_max=0.5,
                                      timestep_type=0)


@spec("signatures.fdcslope_options", "dutils")
def _(d):
    return [d.V(np.abs(d.obs) + 1, containers=("ndarray", "series"),
                dtypes=FL)], \
        lambda x: signatures.fdcslope(x, q1=20, q2=70, cst=0.3,
                                      trans=transform.Log())


@spec("dutils.lag_missing", "dutils")
def _(d):
    return [d.V(d.obs, containers=ND)], \
        lambda x: dutils.lag(x, 3, missing=-999.)


@spec("dutils.water_year_end_window", "dutils")
def _(d):
    v = np.tile(np.abs(d.obs) + 1, 800 // d.n + 1)[:800]
    return [pd.Series(v, index=pd.date_range("2001-03-01", periods=800))], \
        lambda s: dutils.water_year_end(s, convolve_window=5)


@spec("signatures.fdcslope", "dutils")
def _(d):
    return [d.V(np.abs(d.obs) + 1, containers=("ndarray", "series"),
                dtypes=FL)], signatures.fdcslope


# ----------------------------------------------------------------------- gis
FD44 = np.array([[2, 4, 8, 16], [1, 2, 4, 8], [1, 1, 4, 16], [1, 1, 0, 16]])


def _fd(d, dtype=None):
    dt = {"float64": np.float64, "float32": np.float64, "int64": np.int64,
          "int32": np.int32}[d.case["dtype"]] if dtype is None else dtype
    g = Grid("fd", 4, 4, dtype=dt)
    g.data = FD44.astype(dt)
    return g


def _field(d):
    g = Grid("ta", 4, 4, dtype=np.float64, nodata=-9999.)
    v = np.resize(d.obs, 16).reshape(4, 4)
    g.data = v
    return g


@spec("grid.accumulate", "gis")
def _(d):
    return [_fd(d), _field(d)], lambda f, t: accumulate(f, t, nprint=0)


def _field_bounded(d):
    """Field with a declared valid range and cells outside it (no-data
    markers written after the range was set)."""
    g = Grid("tb", 4, 4, dtype=np.float64, nodata=-9999.)
    g.data = np.abs(np.resize(d.obs, 16).reshape(4, 4)) + 1.0
    g.mindata = 0.
    g.maxdata = 1e4
    g[3] = -9999.
    g[9] = 5e4
    return g


@spec("grid.accumulate_bounded_field", "gis")
def _(d):
    return [_fd(d), _field_bounded(d)], \
        lambda f, t: accumulate(f, t, nprint=0)


@spec("grid.slope_bounded_field", "gis")
def _(d):
    return [_fd(d), _field_bounded(d)], lambda f, t: slope(f, t, nprint=0)


@spec("grid.accumulate_default", "gis")
def _(d):
    return [_fd(d)], lambda f: accumulate(f, nprint=100)


@spec("grid.slope", "gis")
def _(d):
    return [_fd(d), _field(d)], lambda f, t: slope(f, t, nprint=0)


@spec("grid.delineate_river", "gis")
def _(d):
    return [_fd(d)], lambda g: delineate_river(g, 0, nval=50)


@spec("grid.catchment", "gis")
def _(d):
    def run(g):
        c = Catchment("c", g)
        c.delineate_area(14, nval=100)
        c.delineate_boundary()
        c.compute_flowpathlengths()
        return [c.idxcells_area, c.idxcells_boundary,
                c.flowpathlengths]
    return [_fd(d)], run


def _catch(d):
    c = Catchment("c", _fd(d, np.int64))
    c.delineate_area(14, nval=100)
    return c


@spec("grid.catchment_inlets", "gis")
def _(d):
    inl = d.V(np.array([5., 9.]), containers=ND,
              dtypes=("int64", "int32", "float64"), intscale=False)

    def run(g, inlets):
        c = Catchment("c", g)
        c.delineate_area(14, inlets, nval=100)
        return c.idxcells_area
    return [_fd(d), inl], run


@spec("grid.catchment_object_reused", "gis")
def _(d):
    """One Catchment object used for both calls: the area without inlets,
    then with a list of inlets naming a cell twice, then the relations."""
    inl = d.V(np.array([5., 9., 5.]), containers=ND,
              dtypes=("int64", "int32", "float64"), intscale=False)
    g = _fd(d, np.int64)
    c = Catchment("c", g)

    def run(g, inlets):
        c.delineate_area(14, nval=100)
        a0 = np.array(c.idxcells_area).copy()
        c.delineate_area(14, inlets, nval=100)
        a1 = np.array(c.idxcells_area).copy()
        cells = np.arange(16)
        return [a0, a1, c.downstream(cells), c.upstream(cells),
                np.asarray(c.flowdir.data).copy()]
    return [g, inl], run


def _fd_ring():
    """5x5 grid: everything flows east then south to cell 24, except the
    centre cell 12 (a sink): the area of cell 24 rings around a hole."""
    fd = np.ones((5, 5), dtype=np.int64)
    fd[:, -1] = 4
    fd[2, 0] = fd[2, 1] = 4
    fd[2, 2] = 0
    fd[-1, -1] = 0
    g = Grid("fd", 5, 5, dtype=np.int64)
    g.data = fd
    return g


@spec("grid.catchment_boundary_mask", "gis")
def _(d):
    """delineate_boundary with the caller's own area mask: built from the
    area (the hole not flagged), from the filled area, or all ones."""
    g = _fd_ring()
    c0 = Catchment("c", g)
    c0.delineate_area(24, nval=200)
    kind = ("area", "filled", "ones")[int(abs(d.obs[0]) * 1000) % 3]
    mask = np.zeros(25, dtype=np.int64)
    if kind == "area":
        mask[np.asarray(c0.idxcells_area)] = 1
    elif kind == "filled":
        mask[np.asarray(c0.idxcells_area_filled)] = 1
    else:
        mask[:] = 1

    def run(g, mask):
        c = Catchment("c", g)
        c.delineate_area(24, nval=200)
        c.delineate_boundary(catchment_area_mask=mask)
        return [c.idxcells_boundary, c.idxcells_area]
    return [g, mask], run


def _fieldgaps(d, dtype=np.float64):
    """6x6 field with missing cells and low values (to be gap filled)"""
    g = Grid("z", 6, 6, dtype=dtype, nodata=-9999.)
    v = np.resize(np.concatenate([d.obs, d.sim]), 36).reshape(6, 6).copy()
    v = v.astype(dtype)
    if np.dtype(dtype).kind == "f":
        v[1, 2] = np.nan
        v[4, 4] = np.nan
    v[0, 0] = -60.
    g.data = v
    return g


def _mask66():
    m = Grid("m", 6, 6, dtype=np.int32)
    mm = np.ones((6, 6), dtype=np.int32)
    mm[:, 0] = 0
    mm[5, 3] = 0
    m.data = mm
    return m


@spec("grid.gsmooth", "gis")
def _(d):
    return [_fieldgaps(d)], \
        lambda g: gsmooth(g, coastwin=3, sigma=0.3)


@spec("grid.gsmooth_mask", "gis")
def _(d):
    return [_fieldgaps(d), _mask66()], \
        lambda g, m: gsmooth(g, m, coastwin=3, sigma=0.3, minval=-55.)


@spec("grid.gsmooth_float32", "gis")
def _(d):
    return [_fieldgaps(d, np.float32)], \
        lambda g: gsmooth(g, coastwin=3, sigma=0.3, minval=-55.)


@spec("grid.neighbours+same_geometry", "gis")
def _(d):
    return [_field(d), _fd(d)], \
        lambda g, h: [g.neighbours(5), g.same_geometry(h),
                      h.same_geometry(g)]


@spec("grid.save+to_dict", "gis")
def _(d):
    import tempfile

    def run(g):
        with tempfile.TemporaryDirectory() as td:
            f = os.path.join(td, "g.bil")
            g.save(f)
            raw = open(f, "rb").read()
        dd = g.to_dict()
        return [np.frombuffer(raw, dtype=np.uint8), repr(sorted(dd.items()))]
    return [_field(d)], run


@spec("grid.catchment_isin+extent", "gis")
def _(d):
    c = _catch(d)
    cells = d.V(np.array([14., 3., 0.]), containers=ND,
                dtypes=("int64", "int32"), intscale=False)
    return [cells], lambda x: [[c.isin(int(k)) for k in x],
                               [c.isin(int(k), filled=True) for k in x],
                               list(c.extent())]


@spec("grid.voronoi", "gis")
def _(d):
    c = _catch(d)
    pts = np.abs(d.ens[:3, :2]) % 4
    return [d.V(pts, containers=ND, dtypes=FL)], lambda p: voronoi(c, p)


@spec("grid.intersect", "gis")
def _(d):
    c = _catch(d)
    return [Grid("g", 2, 2, cellsize=2.)], lambda g: c.intersect(g)


@spec("grid.boundary_mask", "gis")
def _(d):
    c = _catch(d)
    mask = np.zeros(16, dtype=np.int64)
    mask[c.idxcells_area_filled] = 1
    return [mask], lambda m: (c.delineate_boundary(m),
                              c.idxcells_boundary)[1]


@spec("grid.upstream", "gis")
def _(d):
    c = _catch(d)
    return [d.V(np.array([14., 5., 0.]), containers=ND,
                dtypes=("int64", "int32", "float64"), intscale=False)], \
        c.upstream


@spec("grid.downstream", "gis")
def _(d):
    c = _catch(d)
    return [d.V(np.array([1., 2., 15.]), containers=ND,
                dtypes=("int64", "int32", "float64"), intscale=False)], \
        c.downstream


@spec("grid.coord2cell", "gis")
def _(d):
    g = _field(d)
    return [d.V(np.abs(d.ens[:, :2]) % 5, containers=ND, dtypes=FL)], \
        g.coord2cell


@spec("grid.cell2coord", "gis")
def _(d):
    g = _field(d)
    return [d.V(np.array([1., 2., 3., 15., 16.]), containers=ND,
                dtypes=("int64", "int32", "float64"), intscale=False)], \
        g.cell2coord


@spec("grid.cell2rowcol", "gis")
def _(d):
    g = _field(d)
    return [d.V(np.array([15., 2., 3., 1.]), containers=ND,
                dtypes=("int64", "int32", "float64"), intscale=False)], \
        g.cell2rowcol


@spec("grid.slice", "gis")
def _(d):
    g = _field(d)
    return [d.V(0.3 + np.abs(d.ens[:, :2]) % 3, containers=ND,
                dtypes=FL)], g.slice


@spec("grid.slice_near_centres", "gis")
def _(d):
    # points computed the way a caller would (corner + k*cellsize +
    # cellsize/2, linspace): equal to the cell centres up to one ulp
    g = Grid("z", 6, 6, cellsize=0.1, xllcorner=0.3, yllcorner=-0.7)
    g.data = np.resize(d.obs, 36).reshape(6, 6)
    k = np.arange(6)
    xy = np.column_stack([0.3 + k * 0.1 + 0.05,
                          np.linspace(-0.65, -0.15, 6)[::-1]])
    return [d.V(xy, containers=ND, dtypes=("float64",), inject=False)], \
        g.slice


@spec("grid.apply_inplace_function", "gis")
def _(d):
    # the function handed to apply works in place on what it receives (a
    # common way of censoring before a square root or a logarithm)
    def censor_sqrt(x):
        x[x < 0] = 0
        return np.sqrt(x)
    return [_field(d)], lambda g: [g.apply(censor_sqrt),
                                   g.apply(lambda x: np.sort(x, axis=0)),
                                   g.apply(np.nan_to_num, copy=False)]


@spec("grid.clip", "gis")
def _(d):
    return [_field(d)], lambda g: g.clip(0.5, 0.5, 2.5, 2.5)


@spec("grid.apply", "gis")
def _(d):
    return [_field(d)], lambda g: g.apply(np.abs)


@spec("grid.interpolate", "gis")
def _(d):
    g2 = Grid("g", 2, 2, cellsize=2.)
    return [_field(d), g2], lambda g, h: g.interpolate(h)


@spec("grid.clone_dtype", "gis")
def _(d):
    return [_field(d)], lambda g: g.clone(np.int32)


@spec("grid.set_data_bounded", "gis")
def _(d):
    # declared data range: upper bound only, lower bound only, both; the
    # array assigned holds values outside it
    def run(a):
        out = []
        for lo, hi in ((None, 5.), (-5., None), (-5., 5.)):
            g = Grid("x", 4, 4)
            if lo is not None:
                g.mindata = lo
            if hi is not None:
                g.maxdata = hi
            g.data = a
            out.append(g)
        return out
    return [d.V(np.resize(d.obs, 16).reshape(4, 4), containers=ND)], run


@spec("grid.set_data", "gis")
def _(d):
    def run(a):
        g = Grid("x", 4, 4)
        g.data = a
        return g
    return [d.V(np.resize(d.obs, 16).reshape(4, 4), containers=ND)], run


@spec("grid.cells_inside_polygon", "gis")
def _(d):
    g = _field(d)
    poly = np.array([[0., 0.], [3.2, 0.1], [3., 3.], [0.2, 2.7]])
    return [d.V(poly, containers=ND, dtypes=FL)], g.cells_inside_polygon


@spec("gutils.points_inside_polygon", "gis")
def _(d):
    poly = np.array([[0., 0.], [3.2, 0.1], [3., 3.], [0.2, 2.7]])
    return [d.V(np.abs(d.ens[:, :2]) % 4, containers=ND, dtypes=FL),
            d.V(poly, containers=ND, dtypes=FL)], \
        gutils.points_inside_polygon


@spec("gutils.points_inside_polygon_inside", "gis")
def _(d):
    poly = np.array([[0., 0.], [3.2, 0.1], [3., 3.], [0.2, 2.7]])
    pts = np.ascontiguousarray(np.abs(d.ens[:, :2]) % 4)
    return [pts, poly], lambda p, q: gutils.points_inside_polygon(
        p, q, inside=np.ones(len(p), dtype=np.int32)).copy()


# ---------------------------------------------------------------------- plot
def _with_ax(fn):
    def run(*args):
        fig, ax = plt.subplots()
        try:
            return fn(ax, *args)
        finally:
            plt.close(fig)
    return run


@spec("putils.kde", "plot", seeded=True)
def _(d):
    return [d.V(np.column_stack([d.obs, d.sim]), containers=ND,
                dtypes=("float64",))], putils.kde


@spec("putils.kde_ties", "plot", seeded=True)
def _(d):
    xy = np.round(np.column_stack([d.obs, d.sim]))
    return [d.V(xy, containers=ND, dtypes=("float64",))], \
        lambda x: putils.kde(x, ngrid=20)


@spec("putils.ecdfplot", "plot")
def _(d):
    return [pd.DataFrame(d.ens)], \
        _with_ax(lambda ax, x: (putils.ecdfplot(ax, x), None)[1])


@spec("putils.qqplot", "plot")
def _(d):
    return [d.V(d.obs, containers=("ndarray", "series"), dtypes=FL)], \
        _with_ax(lambda ax, x: (putils.qqplot(ax, x), None)[1])


@spec("putils.qqplot_censor", "plot")
def _(d):
    # the censor threshold inside the data (values below it exist), the OLS
    # line requested, data with and without missing values
    cens = float(np.median(d.obs))
    return [d.V(d.obs, containers=("ndarray", "series"), dtypes=FL,
                inject=False)], \
        _with_ax(lambda ax, x: list(putils.qqplot(
            ax, x, addline=True, censor=cens)))


@spec("putils.cov_ellipse", "plot")
def _(d):
    cov = np.cov(np.column_stack([d.obs, d.sim]).T) + np.eye(2)
    mu = np.array([d.obs.mean(), d.sim.mean()])

    def run(m, c):
        el = putils.cov_ellipse(m, c)
        return [el.width, el.height, el.angle]
    return [d.V(mu, containers=ND, dtypes=FL, inject=False),
            d.V(cov, containers=ND, dtypes=FL, inject=False)], run


@spec("putils.bivarnplot", "plot")
def _(d):
    return [d.V(np.column_stack([d.obs, d.sim]), containers=ND,
                dtypes=("float64",), inject=False)], \
        _with_ax(lambda ax, xy: (putils.bivarnplot(ax, xy), None)[1])


# (putils.scattercat calls matplotlib.cm.get_cmap, which the installed
# matplotlib no longer has: it raises for every input here, no spec)


@spec("grid.plot_values", "plot")
def _(d):
    return [_field(d)], \
        _with_ax(lambda ax, g: (g.plot_values(ax), None)[1])


@spec("boxplot.boxplot_stats", "plot")
def _(d):
    return [d.V(d.obs, containers=("ndarray", "series"), dtypes=FL)], \
        lambda x: boxplot.boxplot_stats(x, 50, 90)


@spec("boxplot.Boxplot", "plot")
def _(d):
    return [d.V(d.ens, containers=("ndarray", "frame"))], \
        lambda x: boxplot.Boxplot(x).stats


@spec("boxplot.Boxplot_by", "plot")
def _(d):
    return [pd.Series(d.obs), pd.Series(np.arange(d.n) % 3)], \
        lambda x, b: boxplot.Boxplot(x, by=b).stats


@spec("boxplot.Boxplot_draw", "plot")
def _(d):
    def run(ax, x):
        b = boxplot.Boxplot(x)
        b.draw(ax=ax)
        return b.stats
    return [d.V(d.ens, containers=("ndarray", "frame"), dtypes=FL)], \
        _with_ax(run)


@spec("violin.Violin", "plot", seeded=True)
def _(d):
    return [d.V(d.ens, containers=("ndarray", "frame"), dtypes=FL)], \
        lambda x: [violinplot.Violin(x).stats, violinplot.Violin(x).kde_y]


@spec("violin.Violin_draw", "plot", seeded=True)
def _(d):
    def run(ax, x):
        v = violinplot.Violin(x)
        v.draw(ax=ax)
        return v.kde_y
    return [pd.DataFrame(d.ens)], _with_ax(run)


# --------------------------------------------------------------------- oracle
def oracle(case):
    name = case["spec"]
    make, seeded = SPECS[name]
    d = Data(case)
    args, fn = make(d)
    before = [snap(a) for a in args]
    labels = [f"layout:{case['layout']}", f"dtype:{case['dtype']}",
              f"container:{case['container']}",
              f"content:{case.get('content', 'plain')}",
              "rows:" + ("<=40" if d.n <= 40 else "<=500" if d.n <= 500
                         else ">500")]
    results, errors, snaps = [], [], []
    for k in range(2):
        if seeded:
            np.random.seed(case["seed"])
        try:
            r = fn(*args)
            results.append(r)
            errors.append(None)
        except Exception as e:
            results.append(None)
            errors.append(e)
        snaps.append([snap(a) for a in args])
    for k, sn in enumerate(snaps):
        for i, (b, a) in enumerate(zip(before, sn)):
            if b != a:
                what = "dtype/shape/strides" if b[:4] != a[:4] and \
                    b[0] in ("nd",) else "content"
                raise Violation(
                    f"{name}: argument {i} ({b[0]}, {b[1]}) changed "
                    f"({what}) during call {k + 1} "
                    f"[variant {case['layout']}/{case['dtype']}/"
                    f"{case['container']}]"
                    + (f"; the call raised {type(errors[k]).__name__}"
                       if errors[k] is not None else ""))
    if (errors[0] is None) != (errors[1] is None):
        e = errors[0] or errors[1]
        raise Violation(f"{name}: one of two identical calls raised "
                        f"{type(e).__name__}: {e}")
    if errors[0] is not None:
        labels.append("raised-both-times")
        labels.append(f"raised:{name}:{type(errors[0]).__name__}")
        return {"nt": False, "labels": labels}
    labels.append(f"ran:{name}")
    if not same(results[0], results[1]):
        raise Violation(f"{name}: two identical calls"
                        f"{' with the same seed' if seeded else ''} return "
                        f"different results")
    # a result obtained earlier keeps its values when the function is called
    # again on other data of the same shape
    import copy
    try:
        kept = copy.deepcopy(results[0])
    except Exception:
        kept = None
    if kept is not None:
        case2 = dict(case, obs=[v + 1.5 for v in case["obs"]],
                     ens=[[v * 0.5 - 1 for v in r] for r in case["ens"]])
        args2, fn2 = make(Data(case2))
        if seeded:
            np.random.seed(case["seed"] + 1)
        try:
            fn2(*args2)
        except Exception:
            pass
        if not same(results[0], kept):
            raise Violation(f"{name}: a result returned earlier was "
                            "overwritten by a later call on other data")
    return {"nt": d.plain(), "labels": labels}


def make_strategy(group):
    names = sorted(GROUPS[group])

    @st.composite
    def cases(draw, tier=None):
        n = draw(st.integers(5, 40))
        m = draw(st.integers(2, 5))
        fl = st.floats(-50., 50., allow_nan=False, width=32)
        obs = draw(st.lists(fl, min_size=n, max_size=n, unique=True))
        ens = [[draw(fl) for _ in range(m)] for _ in range(n)]
        return {"spec": draw(st.sampled_from(names)), "obs": obs,
                "ens": ens, "layout": draw(st.sampled_from(LAYOUTS)),
                "dtype": draw(st.sampled_from(DTYPES)),
                "container": draw(st.sampled_from(CONTAINERS)),
                "content": draw(st.sampled_from(CONTENTS)),
                # records of several hundred to 1600 values now and then
                # (internal size thresholds: resampling, kde grids)
                "rep": draw(st.sampled_from([1, 1, 1, 1, 1, 13, 40])),
                "seed": draw(st.integers(0, 2**31 - 1))}
    return lambda tier: cases()


def enum_group(group):
    """Every specification x every variant on one fixed data set (so that
    no specification depends on the luck of the draw)."""
    names = sorted(GROUPS[group])

    def gen(tier):
        rng = np.random.RandomState(12345)
        obs = np.round(rng.normal(size=24) * 10, 3).tolist()
        ens = np.round(rng.normal(size=(24, 4)) * 10, 3).tolist()
        for nm in names:
            for lay in LAYOUTS:
                for dt in sorted(set(DTYPES)):
                    for ct in sorted(set(CONTAINERS)):
                        yield {"spec": nm, "obs": obs, "ens": ens,
                               "layout": lay, "dtype": dt, "container": ct,
                               "content": "plain", "seed": 7}
            # long records (600 and 1512 rows)
            for rep in (25, 63):
                for ct in ("ndarray", "frame"):
                    yield {"spec": nm, "obs": obs, "ens": ens, "layout": "C",
                           "dtype": "float64", "container": ct,
                           "content": "plain", "seed": 7, "rep": rep}
            # float64 C-contiguous arrays (not copied implicitly) with the
            # special contents
            for cc in sorted(set(CONTENTS) - {"plain"}):
                for ct in sorted(set(CONTAINERS)):
                    yield {"spec": nm, "obs": obs, "ens": ens, "layout": "C",
                           "dtype": "float64", "container": ct,
                           "content": cc, "seed": 7}
    return gen


NQ = {"metrics": (150, 6000), "sutils": (150, 6000),
      "transform": (300, 8000), "dutils": (100, 4000), "gis": (150, 6000),
      "plot": (12, 400)}
SUBS = []
for _g in sorted(GROUPS):
    SUBS.append(Sub(f"C18.{_g}.all-specs-all-variants", oracle,
                    enumerate=enum_group(_g),
                    shards=(4 if _g != "plot" else 16, 16)))
    SUBS.append(Sub(f"C18.{_g}.generated", oracle,
                    strategy=make_strategy(_g), n=NQ[_g],
                    shards=(2 if _g != "plot" else 8, 8)))
