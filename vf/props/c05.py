"""C05 - native kernels never touch memory outside their buffers.

Every example is executed in a forked child of a process that runs the
extensions built with AddressSanitizer + UndefinedBehaviorSanitizer
(libclang_rt.asan preloaded).  Pass = the child ends normally, whether the
call returned or raised a Python exception.  Failure = sanitizer report or
death by signal.
"""
import os
import re
import signal
import time

import numpy as np
import pandas as pd
from hypothesis import strategies as st

from vf.core import Sub, Violation, Skip

from hydrodiy.data import dutils, qualitycontrol, signatures
from hydrodiy.stat import metrics, sutils, armodels
from hydrodiy.gis.grid import (Grid, Catchment, accumulate, voronoi, slope,
                               delineate_river)
from hydrodiy.gis import gutils
import c_hydrodiy_data
import c_hydrodiy_stat
import c_hydrodiy_gis

PROPERTY = "C05"
RULE = ("One sub-check per entry point that reaches a compiled kernel (about "
        "50). Hypothesis generates array lengths 0,1,2,3.. up to 8 with "
        "extra weight on 0/1/2 and occasional larger ones, element classes "
        "finite / NaN / +-inf / negative / +-1e300, cell numbers in and out "
        "of range (-2, -1, 0, n-1, n, 2^62), flow grids 1x1..6x6 with any "
        "code including invalid ones and cycles, catchments of 0, 1, 2 "
        "cells, time series shorter than one period and stamps 70+ years "
        "apart, scalar options at and beyond their ranges (nprint 0, maxnan "
        "-1, npoints, nval 0.., AR orders 0..12, operator -1..4). Each "
        "example runs in a forked child under ASan+UBSan; oracle: the child "
        "ends normally (return or Python exception); a sanitizer report or a "
        "signal is a violation, bucketed by (error kind, innermost hydrodiy "
        "frame). Non-trivial = an array of length <= 2, or a non-finite / "
        "huge element, or an out-of-range cell number or option.")
ASSUMPTIONS = [
    "scalar arguments of the calendar helpers and combi are kept within "
    "+-10^6 (year 2^31-1 / n = INT_MIN overflow int by design of the "
    "helpers' domain; DESIGN.md section 5)",
    "sanitizers: clang -fsanitize=address,undefined "
    "-fno-sanitize-recover=undefined; float-divide-by-zero is not part of "
    "the group (the kernels create NaN as 0./0. on purpose)",
]

TIMEOUT = 15


def forked(fn):
    """Run fn in a forked child; returns None or a failure description."""
    r, w = os.pipe()
    pid = os.fork()
    if pid == 0:
        code = 0
        try:
            os.close(r)
            os.dup2(w, 2)
            dn = os.open(os.devnull, os.O_WRONLY)
            os.dup2(dn, 1)
            signal.alarm(TIMEOUT)
            try:
                fn()
            except Exception:
                pass
        except BaseException:
            code = 0
        finally:
            os._exit(code)
    os.close(w)
    chunks = []
    while True:
        b = os.read(r, 65536)
        if not b:
            break
        chunks.append(b)
        if sum(map(len, chunks)) > 4_000_000:
            break
    os.close(r)
    _, status = os.waitpid(pid, 0)
    if os.WIFEXITED(status) and os.WEXITSTATUS(status) == 0:
        return None
    txt = b"".join(chunks).decode(errors="replace")
    if os.WIFSIGNALED(status) and os.WTERMSIG(status) == signal.SIGALRM:
        return "TIMEOUT"
    m = re.search(r"(AddressSanitizer: [a-zA-Z\-]+|runtime error: [^\n]+|"
                  r"SEGV|AddressSanitizer:DEADLYSIGNAL)", txt)
    loc = re.findall(r"in (\S+) (\S*?/hydrodiy/\S+?):(\d+)", txt)
    kind = m.group(1) if m else (
        f"signal {os.WTERMSIG(status)}" if os.WIFSIGNALED(status)
        else f"exit status {os.WEXITSTATUS(status)}")
    where = f"{loc[0][0]} {os.path.basename(loc[0][1])}:{loc[0][2]}" \
        if loc else "?"
    return f"{kind} @ {where}"


def bucket(msg):
    """(error kind, innermost hydrodiy frame without the line number)."""
    m = re.match(r"(.*?) @ (\S+)", msg)
    if not m:
        return msg
    kind = re.sub(r"runtime error: ", "", m.group(1))
    kind = re.sub(r"-?\d[\d.]*(e[+-]?\d+)?|\bnan\b|\binf\b", "N",
                  kind)[:70]
    return f"{kind} @ {m.group(2)}"


def generic_nt(obj):
    if isinstance(obj, float):
        return not np.isfinite(obj) or abs(obj) >= 1e100
    if isinstance(obj, int) and not isinstance(obj, bool):
        return abs(obj) > 10**6
    if isinstance(obj, list):
        if len(obj) <= 2:
            return True
        return any(generic_nt(x) for x in obj)
    if isinstance(obj, dict):
        return any(generic_nt(v) for v in obj.values()) or \
            bool(obj.get("extreme"))
    return False


def seeded(call, case):
    """Functions drawing random numbers (randomised PIT in alpha) see a
    stream that depends on the case only: a saved case replays identically."""
    import json
    import zlib
    np.random.seed(zlib.crc32(json.dumps(case, sort_keys=True,
                                         default=str).encode()))
    call(case)


def make_oracle(call):
    def oracle(case):
        res = forked(lambda: seeded(call, case))
        if res == "TIMEOUT":
            return {"nt": False, "labels": ["timeout:inconclusive"]}
        if res is not None:
            raise Violation(f"sanitizer/crash [{bucket(res)}]: {res}")
        return {"nt": generic_nt(case), "labels": []}
    return oracle


# ----------------------------------------------------------------- strategies
SPECIAL = [0., -1., 1., float("nan"), float("inf"), float("-inf"), 1e300,
           -1e300, 0.5, 1e-300]
fval = st.one_of(st.sampled_from(SPECIAL),
                 st.floats(-100., 100., allow_nan=False),
                 st.floats(allow_nan=True, allow_infinity=True))
length = st.one_of(st.sampled_from([0, 0, 1, 1, 2, 2, 3]), st.integers(0, 8),
                   st.sampled_from([17, 64, 300, 2000]))
small = st.one_of(st.sampled_from([0, 0, 1, 1, 2, 2, 3]), st.integers(0, 8))
CELLS = [-2, -1, 0, 1, 2**62, -2**62, 2**63 - 1, -2**63, 2**31 - 1, 2**31,
         -2**31]


@st.composite
def farr(draw, n=None, maxbig=True):
    if n is None:
        n = draw(length if maxbig else small)
    if n > 20:
        base = draw(st.lists(fval, min_size=5, max_size=5))
        return (base * (n // 5 + 1))[:n]
    return draw(st.lists(fval, min_size=n, max_size=n))


@st.composite
def fmat(draw, nmax=6, mmax=5):
    n = draw(st.integers(0, nmax))
    m = draw(st.integers(0, mmax))
    return [draw(st.lists(fval, min_size=m, max_size=m)) for _ in range(n)]


def A(x, dtype=np.float64):
    return np.array(x, dtype=dtype)


def M(x, ncol=None):
    a = np.array(x, dtype=np.float64)
    if a.ndim != 2:
        a = a.reshape(len(x), ncol if ncol is not None else 0)
    return a


# other shapes a caller may hand to an argument documented as [n, 2]: one
# column, three columns, a flat vector, a single number, three dimensions
XYSHAPES = ["n2", "n2", "n2", "n1", "n3", "flat", "scalar", "3d", "empty0"]


def reshape_xy(a, how):
    a = np.ascontiguousarray(a, dtype=np.float64)
    if how == "n1":
        return np.ascontiguousarray(a[:, :1])
    if how == "n3":
        return np.ascontiguousarray(np.column_stack([a, a[:, :1]]))
    if how == "flat":
        return a.ravel()[:max(1, a.size - 1)].copy() if a.size else a.ravel()
    if how == "scalar":
        return float(a.ravel()[0]) if a.size else 0.0
    if how == "3d":
        return a.reshape(a.shape[0], a.shape[1], 1)
    if how == "empty0":
        return np.zeros((0,), dtype=np.float64)
    return a


@st.composite
def flowgrid(draw):
    nr, nc = draw(st.integers(1, 6)), draw(st.integers(1, 6))
    codes = st.sampled_from([0, 1, 2, 4, 8, 16, 32, 64, 128, 3, -1, 255,
                             256, 512, 2**31, 2**40, 2**62, -128, -2**63,
                             129, 2**31 - 1])
    if draw(st.integers(0, 2)) == 0:
        # channels: every cell holds the same direction (long chains, layers
        # of one cell), a few cells redrawn
        main = draw(st.sampled_from([1, 4, 16, 64, 2, 32]))
        fd = [main] * (nr * nc)
        for _ in range(draw(st.integers(0, 2))):
            fd[draw(st.integers(0, nr * nc - 1))] = draw(codes)
    else:
        fd = draw(st.lists(codes, min_size=nr * nc, max_size=nr * nc))
    return {"shape": [nr, nc], "fd": fd}


def mkgrid(g, dtype=np.int64):
    nr, nc = g["shape"]
    gr = Grid("fd", nc, nr, dtype=dtype)
    gr.data = np.array(g["fd"]).reshape(nr, nc)
    return gr


@st.composite
def cell(draw, n):
    return draw(st.one_of(st.sampled_from(CELLS + [n - 1, n, n + 1]),
                          st.integers(-2, n + 1)))


SUBS = []


def entry(name, strategy, n=(100, 2500), shards=(2, 4)):
    def deco(call):
        SUBS.append(Sub(f"C05.{name}", make_oracle(call),
                        strategy=lambda tier: strategy, n=n,
                        shards=shards,
                        bucket=lambda msg: bucket(
                            msg.split("]: ", 1)[-1])))
        return call
    return deco


# ---------------------------------------------------------------------- data
@st.composite
def agg_case(draw):
    n = draw(length)
    idx = draw(st.lists(st.integers(-3, 3), min_size=n, max_size=n)) \
        if n <= 20 else list(range(n))
    if draw(st.integers(0, 4)) > 0:
        idx = sorted(idx)
    m = n if draw(st.integers(0, 5)) else max(0, n - 1)
    # labels at the ends of the 32-bit range (the last label is the largest
    # int, the first the smallest) and beyond it
    level = draw(st.sampled_from(["none", "none", "none", "top", "top",
                                  "bottom", "beyond"]))
    if idx and level != "none":
        off = {"top": 2**31 - 1 - max(idx), "bottom": -2**31 - min(idx),
               "beyond": 2**31 - max(idx)}[level]
        idx = [i + off for i in idx]
    return {"idx": idx, "x": draw(farr(m)),
            "op": draw(st.integers(-1, 4)),
            "maxnan": draw(st.sampled_from([0, 0, -1, 1, 3, 2**31 - 1]))}


@entry("dutils.aggregate", agg_case())
def _(c):
    dutils.aggregate(A(c["idx"], np.int64), A(c["x"]), c["op"], c["maxnan"])


@entry("dutils.flathomogen", agg_case())
def _(c):
    dutils.flathomogen(A(c["idx"], np.int64), A(c["x"]), c["maxnan"])


@entry("signatures.goue", agg_case())
def _(c):
    signatures.goue(A(c["idx"], np.int64), A(c["x"]))


@st.composite
def islin_case(draw):
    return {"x": draw(farr()),
            "npoints": draw(st.sampled_from([1, 1, 2, 3, 4, 0, -1, 100])),
            "tol": draw(st.sampled_from([1e-6, 0., -1., float("nan")])),
            "thresh": draw(st.sampled_from([0., 1., float("nan"), -1e300]))}


@entry("qualitycontrol.islinear", islin_case())
def _(c):
    qualitycontrol.islinear(A(c["x"]), c["npoints"], c["tol"], c["thresh"])


@entry("qualitycontrol.ismisscens", islin_case())
def _(c):
    qualitycontrol.ismisscens(A(c["x"]))


@st.composite
def eck_case(draw):
    return {"x": draw(farr()),
            "thresh": draw(st.sampled_from([0.95, 0., 1., 2., -1.,
                                            float("nan")])),
            "tau": draw(st.sampled_from([20, 0, -1, 1e300])),
            "bfi": draw(st.sampled_from([0.8, 0., 1., 2., float("nan")])),
            "tt": draw(st.sampled_from([1, 0, 2, -1, 5]))}


@entry("signatures.eckhardt", eck_case())
def _(c):
    signatures.eckhardt(A(c["x"]), c["thresh"], c["tau"], c["bfi"], c["tt"])


@entry("signatures.fdcslope", eck_case())
def _(c):
    signatures.fdcslope(A(c["x"]))


@st.composite
def var2h_case(draw):
    n = draw(st.one_of(st.sampled_from([1, 1, 2, 2, 3]), st.integers(1, 8)))
    if draw(st.integers(0, 2)) == 0:
        # a record of a few hours: 1 to 15 output periods
        n = draw(st.integers(2, 8))
        steps = [draw(st.sampled_from([600, 1800, 3600, 5400, 7200]))
                 for _ in range(n - 1)]
    else:
        steps = [draw(st.one_of(
            st.sampled_from([0, 1, 600, 1800, 3600, 5400, 86400, -600,
                             70 * 366 * 86400, 25 * 366 * 86400]),
            st.integers(1, 4000))) for _ in range(n - 1)]
    return {"start": draw(st.sampled_from([0, 600, 3599, 3600, 1799])),
            "year": draw(st.sampled_from([1900, 1970, 2000, 2250])),
            "steps": steps, "vals": draw(farr(n)),
            "P": draw(st.sampled_from([3600, 3600, 1800, 900, 0, 1, -3600,
                                       2**31 - 1])),
            "maxgap": draw(st.sampled_from([3600, 432000, 2**31 - 1, 0, -1,
                                            -2**31])),
            "rain": draw(st.sampled_from([False, True, 2])),
            "display": draw(st.sampled_from([False, True, True, 2, -1])),
            "extreme": True}


@entry("dutils.var2h", var2h_case(), n=(100, 2500), shards=(2, 8))
def _(c):
    t0 = pd.Timestamp(year=c["year"], month=1, day=1) \
        + pd.Timedelta(seconds=c["start"])
    secs = np.concatenate([[0], np.cumsum(c["steps"])]).astype(np.int64)
    idx = pd.DatetimeIndex([t0 + pd.Timedelta(seconds=int(s))
                            for s in secs])
    se = pd.Series(A(c["vals"]), index=idx)
    dutils.var2h(se, c["P"], c["maxgap"], c["rain"],
                 c.get("display", False))


@st.composite
def date_case(draw):
    ii = st.one_of(st.integers(-3, 14), st.integers(-10**6, 10**6),
                   st.sampled_from([0, 1, 12, 13, 28, 29, 30, 31, 32, 1900,
                                    2000, 2100, -1]),
                   # the ends of the 32-bit range
                   st.sampled_from([2**31 - 1, -2**31, 2**31 - 2,
                                    -2**31 + 1, 2**31 - 1]))
    last_day = st.sampled_from([[2**31 - 1, 12, 31], [2**31 - 1, 12, 15],
                                [2**31 - 1, 11, 30], [-2**31, 12, 31],
                                [2**31 - 2, 12, 31], [2**31 - 1, 2, 28]])
    return {"a": draw(ii), "b": draw(ii), "c": draw(ii),
            "d1": draw(st.one_of(
                st.lists(ii, min_size=3, max_size=3),
                st.lists(ii, min_size=0, max_size=5), last_day)),
            "d2": draw(st.one_of(
                st.lists(ii, min_size=3, max_size=3),
                st.lists(ii, min_size=0, max_size=5))),
            "dlen": draw(st.sampled_from([3, 3, 3, 0, 1, 2, 4])),
            "day": draw(st.one_of(fval, st.floats(1e7, 3e7),
                                  st.sampled_from([20000229., 19001301.,
                                                   1e9, 2.2e9, -1.]))),
            "fn": draw(st.sampled_from(["combi", "isleapyear", "daysinmonth",
                                        "dayofyear", "add1month", "add1day",
                                        "comparedates", "getdate",
                                        "py_dayofyear"]))}


@entry("c_hydrodiy_data.date-helpers", date_case(), n=(200, 2500),
       shards=(3, 8))
def _(c):
    f = c["fn"]
    i32 = np.int32
    if f == "combi":
        c_hydrodiy_data.combi(c["a"], c["b"])
    elif f == "isleapyear":
        c_hydrodiy_data.isleapyear(c["a"])
    elif f == "daysinmonth":
        c_hydrodiy_data.daysinmonth(c["a"], c["b"])
    elif f == "dayofyear":
        c_hydrodiy_data.dayofyear(c["a"], c["b"])
    elif f == "add1month":
        c_hydrodiy_data.add1month(A(c["d1"], i32))
    elif f == "add1day":
        c_hydrodiy_data.add1day(A(c["d1"], i32))
    elif f == "comparedates":
        c_hydrodiy_data.comparedates(A(c["d1"], i32), A(c["d2"], i32))
    elif f == "getdate":
        c_hydrodiy_data.getdate(c["day"], np.zeros(c["dlen"], dtype=i32))
    else:
        dutils.dayofyear(pd.date_range("2000-02-27", periods=5))


# ---------------------------------------------------------------------- stat
@st.composite
def ens_case(draw):
    e = draw(fmat())
    n = len(e)
    m = n if draw(st.integers(0, 5)) else n + 1
    return {"obs": draw(farr(m, maxbig=False)), "ens": e,
            "ncol": len(e[0]) if e else draw(st.integers(0, 3)),
            "eps": draw(st.sampled_from([1e-6, 1e-6, 0., -1., 1e-30,
                                         float("nan")]))}


@entry("metrics.crps", ens_case())
def _(c):
    metrics.crps(A(c["obs"]), M(c["ens"], c["ncol"]))


@entry("metrics.dscore", ens_case())
def _(c):
    metrics.dscore(A(c["obs"]), M(c["ens"], c["ncol"]), c["eps"])


@entry("metrics.pit+alpha", ens_case())
def _(c):
    o, e = A(c["obs"]), M(c["ens"], c["ncol"])
    try:
        metrics.pit(o, e)
    except Exception:
        pass
    metrics.alpha(o, e, type="AD")


@entry("metrics.iqr+corr", ens_case())
def _(c):
    o, e = A(c["obs"]), M(c["ens"], c["ncol"])
    try:
        metrics.iqr(e, e)
    except Exception:
        pass
    metrics.corr(o, e)


@entry("c_hydrodiy_stat.ensrank", ens_case())
def _(c):
    sim = M(c["ens"], c["ncol"])
    n = sim.shape[0]
    c_hydrodiy_stat.ensrank(c["eps"], np.ascontiguousarray(sim),
                            np.zeros((n, n)), np.zeros(n))


@st.composite
def unif_case(draw):
    return {"u": draw(st.one_of(
        farr(), st.lists(st.floats(0., 1.), min_size=0, max_size=8)))}


@entry("metrics.anderson_darling_test", unif_case())
def _(c):
    metrics.anderson_darling_test(A(c["u"]))


@entry("metrics.cramer_von_mises_test", unif_case())
def _(c):
    metrics.cramer_von_mises_test(A(c["u"]))


@st.composite
def ar_case(draw):
    # orders around the largest supported one (10) carry half the weight
    p = draw(st.one_of(st.sampled_from([0, 1, 2, 9, 10, 10, 10, 11, 12, 25]),
                       st.sampled_from([10, 10, 9, 11]),
                       st.integers(0, 12)))
    if draw(st.booleans()):
        # a model the kernel accepts: finite coefficients
        params = draw(st.lists(st.floats(-1., 1., allow_nan=False),
                               min_size=p, max_size=p))
    else:
        params = draw(farr(p, maxbig=False))
    return {"params": params, "x": draw(farr()),
            "mean": draw(fval), "ini": draw(st.one_of(st.none(), fval))}


@entry("armodels.armodel_sim", ar_case())
def _(c):
    armodels.armodel_sim(A(c["params"]), A(c["x"]), c["mean"], c["ini"])


@entry("armodels.armodel_residual", ar_case())
def _(c):
    armodels.armodel_residual(A(c["params"]), A(c["x"]), c["mean"],
                              c["ini"])


@st.composite
def mat_case(draw):
    m = draw(fmat(6, 4))
    return {"P": m, "ncol": len(m[0]) if m else draw(st.integers(0, 3)),
            "ori": draw(st.sampled_from([1, -1, 0, 2])),
            "p2": draw(st.integers(0, 4)), "n2": draw(st.integers(0, 6))}


@entry("sutils.pareto_front", mat_case())
def _(c):
    sutils.pareto_front(M(c["P"], c["ncol"]), c["ori"])


@entry("c_hydrodiy_stat.olsleverage", mat_case())
def _(c):
    X = M(c["P"], c["ncol"])
    n, p = X.shape
    c_hydrodiy_stat.olsleverage(np.ascontiguousarray(X), np.eye(p),
                                np.zeros(n))


# ----------------------------------------------------------------------- gis
@st.composite
def geom_case(draw):
    g = draw(flowgrid())
    n = g["shape"][0] * g["shape"][1]
    k = draw(small)
    g["pts"] = [[draw(fval), draw(fval)] for _ in range(k)]
    g["cells"] = [draw(cell(n)) for _ in range(draw(small))]
    g["cell"] = draw(cell(n))
    g["box"] = [draw(st.one_of(fval, st.floats(-1., 7.))) for _ in range(4)]
    g["csz"] = draw(st.sampled_from([1., 1., 0.5, 0.05, 0.1, 1. / 3, 0.125,
                                     1e-300, 1e300]))
    g["xll"] = draw(st.sampled_from([0., 0., -0.25, 0.3, 1e4]))
    g["xyshape"] = draw(st.sampled_from(XYSHAPES))
    # points on the cell-edge lattice (k * cellsize) and their neighbours
    nr, nc = g["shape"]
    for _ in range(draw(st.integers(0, 4))):
        i, j = draw(st.integers(-1, nc + 1)), draw(st.integers(-1, nr + 1))
        x, y = g["xll"] + i * g["csz"], j * g["csz"]
        k = draw(st.integers(0, 2))
        if k == 1:
            x = float(np.nextafter(x, -np.inf))
        elif k == 2:
            y = float(np.nextafter(y, -np.inf))
        g["pts"].append([x, y])
    return g


def geogrid(c, dtype=np.float64):
    nr, nc = c["shape"]
    g = Grid("g", nc, nr, cellsize=c["csz"], dtype=dtype,
             xllcorner=c.get("xll", 0.))
    g.data = np.array(c["fd"]).reshape(nr, nc)
    return g


def edge_points(c):
    """The drawn points plus points on / next to the right and top border of
    the extent in the bottom and top rows (where a cell number one past the
    grid would come from)."""
    nr, nc = c["shape"]
    csz, xll = c["csz"], c.get("xll", 0.)
    pts = [list(p) for p in c["pts"]]
    if not (np.isfinite(csz) and 1e-6 < csz < 1e6):
        return M(pts, 2)
    for x0 in (xll + nc * csz, xll + csz * nc - 0.0, (nc * csz) + xll):
        for x in (x0, float(np.nextafter(x0, -np.inf)),
                  float(np.nextafter(x0, np.inf))):
            for y in (0.5 * csz, (nr - 0.5) * csz, 0.0,
                      float(np.nextafter(nr * csz, -np.inf))):
                pts.append([x, y])
    for y0 in (nr * csz,):
        for y in (y0, float(np.nextafter(y0, -np.inf))):
            for x in (xll + 0.5 * csz, xll + (nc - 0.5) * csz):
                pts.append([x, y])
    return M(pts, 2)


@entry("Grid.coord2cell", geom_case())
def _(c):
    geogrid(c).coord2cell(reshape_xy(edge_points(c), c.get("xyshape", "n2")))


@entry("Grid.cell2coord+cell2rowcol", geom_case())
def _(c):
    g = geogrid(c)
    g.cell2coord(A(c["cells"], np.int64))
    g.cell2rowcol(A(c["cells"], np.int64))


@entry("Grid.neighbours", geom_case())
def _(c):
    geogrid(c).neighbours(c["cell"])


@entry("Grid.slice", geom_case())
def _(c):
    geogrid(c).slice(reshape_xy(edge_points(c), c.get("xyshape", "n2")))


# grids without columns and / or rows (an empty selection, a raster cropped
# to nothing): every kernel that receives the grid size
@st.composite
def empty_grid_case(draw):
    nr, nc = draw(st.sampled_from([(0, 3), (3, 0), (0, 0), (0, 1), (1, 0),
                                   (5, 0)]))
    return {"shape": [nr, nc],
            "cells": draw(st.lists(st.integers(-2, 7), min_size=0,
                                   max_size=4)),
            "cell": draw(st.integers(-1, 5)),
            "pts": [[draw(fval), draw(fval)]
                    for _ in range(draw(st.integers(0, 3)))],
            "csz": draw(st.sampled_from([1., 0.5])),
            "which": draw(st.integers(0, 12))}


def empty_grid_call(c):
    nr, nc = c["shape"]
    w = c["which"]
    if w >= 8:
        # a catchment rebuilt from a dictionary (cells as stored), then the
        # kernels that turn its cells into coordinates
        fd = Grid("fd", nc, nr, dtype=np.int64)
        cells = [k for k in c["cells"] if k >= 0] or [0, 1]
        ca = Catchment.from_dict({
            "name": "c", "flowdir": fd.to_dict(), "idxcell_outlet": 0,
            "idxinlets": None, "idxcells_area": cells,
            "idxcells_area_filled": cells})
        if w == 8:
            voronoi(ca, M(c["pts"] or [[0., 0.]], 2))
        elif w == 9:
            ca.intersect(Grid("g", 2, 2, cellsize=2.))
        elif w == 10:
            ca.delineate_boundary()
        elif w == 11:
            ca.compute_flowpathlengths()
        else:
            ca.isin(c["cell"])
            ca.extent()
        return
    if w >= 5:
        fd = Grid("fd", nc, nr, dtype=np.int64)
        ca = Catchment("c", fd)
        cells = A(c["cells"], np.int64)
        if w == 5:
            ca.upstream(cells)
        elif w == 6:
            ca.downstream(cells)
        else:
            ca.delineate_area(c["cell"], nval=10)
        return
    g = Grid("g", nc, nr, cellsize=c["csz"])
    if w == 0:
        g.cell2coord(A(c["cells"], np.int64))
    elif w == 1:
        g.cell2rowcol(A(c["cells"], np.int64))
    elif w == 2:
        g.neighbours(c["cell"])
    elif w == 3:
        g.coord2cell(M(c["pts"], 2))
    else:
        g.slice(M(c["pts"], 2))


@entry("Grid.clip", geom_case())
def _(c):
    geogrid(c).clip(*c["box"])


@entry("Grid.cells_inside_polygon", geom_case())
def _(c):
    geogrid(c).cells_inside_polygon(reshape_xy(M(c["pts"], 2),
                                               c.get("xyshape", "n2")))


@entry("Grid.interpolate", geom_case())
def _(c):
    g = geogrid(c)
    h = Grid("h", 2, 3, cellsize=0.7, xllcorner=c["box"][0]
             if np.isfinite(c["box"][0]) else 0.)
    g.interpolate(h)


@st.composite
def catch_case(draw):
    g = draw(flowgrid())
    n = g["shape"][0] * g["shape"][1]
    g["outlet"] = draw(cell(n))
    g["inlets"] = [draw(cell(n)) for _ in range(draw(st.integers(0, 3)))]
    g["nval"] = draw(st.one_of(
        st.sampled_from([0, 1, 2, 3, 4, 4 * n + 8, 4 * n + 8]),
        st.integers(0, n + 2)))
    if draw(st.integers(0, 2)) == 0:
        # buffer sizes at and around what the delineation needs: the number
        # of cells draining directly into the outlet, and the whole area
        from vf.props import gis_common as G_
        down = G_.down_model(np.array(g["fd"]).reshape(g["shape"]))
        # (the outlet with the largest area: several layers upstream)
        sizes = [len(G_.area_model(down, c, set())) for c in range(n)]
        o = int(np.argmax(sizes))
        g["outlet"] = o
        g["inlets"] = []
        direct = int(np.sum(down == o))
        area = sizes[o]
        g["nval"] = draw(st.sampled_from(
            [direct, direct + 1, direct + 1, direct + 2, max(area - 1, 0),
             area, area + 1]))
    g["cells"] = [draw(cell(n)) for _ in range(draw(small))]
    g["area"] = draw(st.lists(st.integers(-1, n), min_size=0, max_size=4,
                              unique=True))
    g["pts"] = [[draw(fval), draw(fval)] for _ in range(draw(small))]
    g["coarse"] = [draw(st.integers(1, 3)), draw(st.integers(1, 3)),
                   draw(st.sampled_from([1., 2., 0.5, 1e-300])),
                   draw(st.sampled_from([0., -1., 100., float("nan")]))]
    g["start"] = draw(cell(n))
    return g


@entry("Catchment.upstream+downstream", catch_case())
def _(c):
    ca = Catchment("c", mkgrid(c))
    try:
        ca.upstream(A(c["cells"], np.int64))
    except Exception:
        pass
    ca.downstream(A(c["cells"], np.int64))


def delin(c):
    ca = Catchment("c", mkgrid(c))
    ca.delineate_area(c["outlet"], c["inlets"] if c["inlets"] else None,
                      nval=c["nval"])
    return ca


@entry("Catchment.delineate_area", catch_case())
def _(c):
    delin(c)


@entry("Catchment.delineate_boundary+flowpaths", catch_case())
def _(c):
    ca = delin(c)
    try:
        ca.delineate_boundary()
    except Exception:
        pass
    ca.compute_flowpathlengths()


@entry("Catchment.from_dict+boundary", catch_case())
def _(c):
    dic = {"name": "c", "idxcell_outlet": c["outlet"], "idxinlets": None,
           "idxcells_area": c["area"], "idxcells_area_filled": c["area"],
           "flowdir": mkgrid(c).to_dict()}
    ca = Catchment.from_dict(dic)
    try:
        ca.delineate_boundary()
    except Exception:
        pass
    try:
        ca.compute_flowpathlengths()
    except Exception:
        pass
    voronoi(ca, M(c["pts"], 2))


@entry("Catchment.intersect", catch_case())
def _(c):
    ca = delin(c)
    gnr, gnc, csz, xll = c["coarse"]
    ca.intersect(Grid("g", gnc, gnr, cellsize=csz, xllcorner=xll))


@st.composite
def fill_case(draw):
    """Catchment whose filled area is larger than its area (hole, or a
    dictionary with any two cell lists), intersected with a target grid of
    the same or a finer resolution, filled on and off."""
    nr, nc = draw(st.integers(1, 6)), draw(st.integers(1, 6))
    n = nr * nc
    area = draw(st.lists(st.integers(0, n - 1), min_size=0, max_size=n,
                         unique=True))
    extra = draw(st.lists(st.integers(0, n - 1), min_size=0, max_size=n,
                          unique=True))
    return {"shape": [nr, nc], "fd": [0] * n, "area": area,
            "filled": sorted(set(area) | set(extra)),
            "use_filled": draw(st.booleans()),
            "ratio": draw(st.sampled_from([1., 1., 0.5, 0.25, 2., 1. / 3])),
            "gshape": [draw(st.integers(1, 14)), draw(st.integers(1, 14))],
            "goff": [draw(st.sampled_from([0., 0., -0.5, 0.25, 3.])),
                     draw(st.sampled_from([0., 0., -0.5, 0.25, 3.]))]}


@entry("Catchment.intersect-filled", fill_case())
def _(c):
    dic = {"name": "c", "idxcell_outlet": 0, "idxinlets": None,
           "idxcells_area": c["area"], "idxcells_area_filled": c["filled"],
           "flowdir": mkgrid(c).to_dict()}
    ca = Catchment.from_dict(dic)
    gnr, gnc = c["gshape"]
    g = Grid("g", gnc, gnr, cellsize=c["ratio"], xllcorner=c["goff"][0],
             yllcorner=c["goff"][1])
    ca.intersect(g, filled=c["use_filled"])


@entry("grid.voronoi", catch_case())
def _(c):
    ca = delin(c)
    voronoi(ca, reshape_xy(M(c["pts"], 2),
                           XYSHAPES[(len(c["pts"]) + c["start"])
                                    % len(XYSHAPES)]))


@entry("grid.delineate_river", catch_case())
def _(c):
    delineate_river(mkgrid(c), c["start"], nval=c["nval"])


@st.composite
def acc_case(draw):
    g = draw(flowgrid())
    n = g["shape"][0] * g["shape"][1]
    g["field"] = draw(st.one_of(st.none(), farr(n, maxbig=False)))
    g["nprint"] = draw(st.sampled_from([0, 0, 1, 100, -1, 10**18, -2**63]))
    g["cap"] = draw(st.sampled_from([-1, -1, 0, 1, 3, -5, 1000, 2**62,
                                     -2**63 + 1]))
    # no-data markers of every magnitude (they are printed and stored)
    g["nodata"] = draw(st.sampled_from([
        0., -9999., float("nan"), -1.7976931348623157e308,
        1.7976931348623157e308, -3.4028234663852886e38, 1e300, -1e150,
        float("inf"), float("-inf"), 5e-324]))
    g["mismatch"] = draw(st.integers(0, 9)) == 0
    g["fdtype"] = draw(st.sampled_from(["int64", "int32", "float64"]))
    return g


def fieldgrid(c):
    if c["field"] is None:
        return None
    nr, nc = c["shape"]
    if c["mismatch"]:
        nr = nr + 1
    t = Grid("t", nc, nr, dtype=np.float64, nodata=c["nodata"])
    t.data = np.resize(A(c["field"]) if len(c["field"]) else np.zeros(1),
                       nr * nc).reshape(nr, nc)
    return t


@entry("grid.accumulate", acc_case())
def _(c):
    g = mkgrid(c, np.dtype(c["fdtype"]).type)
    if c["fdtype"] == "float64":
        # a flow direction raster read as floats carries its own marker
        nr, nc = c["shape"]
        g = Grid("fd", nc, nr, dtype=np.float64, nodata=c["nodata"])
        g.data = np.array(c["fd"], dtype=np.float64).reshape(nr, nc)
    accumulate(g, fieldgrid(c),
               nprint=c["nprint"], max_accumulated_cells=c["cap"])


@entry("grid.slope", acc_case())
def _(c):
    t = fieldgrid(c)
    if t is None:
        t = mkgrid(c).clone(np.float64)
    slope(mkgrid(c), t, nprint=c["nprint"])


@st.composite
def pip_case(draw):
    kp, kv = draw(small), draw(small)
    return {"pts": [[draw(fval), draw(fval)] for _ in range(kp)],
            "poly": [[draw(fval), draw(fval)] for _ in range(kv)],
            "inside": draw(st.sampled_from(["none", "ok", "short", "long"])),
            "ptshape": draw(st.sampled_from(XYSHAPES)),
            "polyshape": draw(st.sampled_from(XYSHAPES)),
            "atol": draw(st.sampled_from([1e-8, 0., -1., float("nan")])),
            "nprint": draw(st.sampled_from([0, 0, 1, -1, 3]))}


@entry("gutils.points_inside_polygon", pip_case())
def _(c):
    pts, poly = M(c["pts"], 2), M(c["poly"], 2)
    ins = None
    if c["inside"] != "none":
        k = len(pts) + {"ok": 0, "short": -1, "long": 1}[c["inside"]]
        ins = np.ones(max(k, 0), dtype=np.int32)
    # (shapes other than [n, 2] for the points / the polygon)
    pts = reshape_xy(pts, c.get("ptshape", "n2"))
    poly = reshape_xy(poly, c.get("polyshape", "n2"))
    gutils.points_inside_polygon(pts, poly, inside=ins, atol=c["atol"],
                                 nprint=c["nprint"])


# ---------------------------------------------------------------- large sizes
# "whatever the array lengths": a fixed list of large (but ordinary) sizes
# per kernel family; data are built from the size, element classes drawn.
def _ramp(n, kind):
    x = np.arange(n, dtype=np.float64) % 1013 / 7.
    if kind == "nan-sprinkled":
        x[::97] = np.nan
    elif kind == "constant":
        x[:] = 2.5
    return x


def _chain_grid(nr, nc):
    """Every cell flows east, the last column flows south: one outlet."""
    g = Grid("fd", nc, nr, dtype=np.int64)
    d = np.ones((nr, nc), dtype=np.int64)
    d[:, -1] = 4
    d[-1, -1] = 0
    g.data = d
    return g


def large_call(c):
    fn, n, m = c["fn"], c["n"], c["m"]
    x = _ramp(n, c["kind"])
    if fn == "dscore":
        sim = np.vstack([_ramp(m, c["kind"]) + 2 * i for i in range(n)])
        metrics.dscore(np.arange(n, dtype=np.float64), sim)
    elif fn == "ensrank":
        sim = np.vstack([_ramp(m, c["kind"]) + 2 * i for i in range(n)])
        c_hydrodiy_stat.ensrank(1e-6, np.ascontiguousarray(sim),
                                np.zeros((n, n)), np.zeros(n))
    elif fn == "crps":
        sim = (x[:, None] + np.arange(m)[None, :] % 17).copy()
        metrics.crps(x.copy(), sim)
    elif fn == "pit+alpha":
        sim = (x[:, None] + np.arange(m)[None, :] % 17 - 8.).copy()
        metrics.pit(x.copy(), sim)
        metrics.alpha(x.copy(), sim)
    elif fn == "uniformity":
        u = (np.arange(n) + 0.5) / n
        metrics.anderson_darling_test(u)
        metrics.cramer_von_mises_test(u)
    elif fn == "aggregate":
        idx = (np.arange(n) // max(m, 1)).astype(np.int64)
        dutils.aggregate(idx, x, 0, 3)
        dutils.flathomogen(idx, x, 3)
        signatures.goue(idx, x)
    elif fn == "qualitycontrol":
        qualitycontrol.islinear(x, 3, 1e-6, 0.)
        qualitycontrol.ismisscens(x)
    elif fn == "signatures":
        signatures.eckhardt(x)
        signatures.fdcslope(x)
    elif fn == "armodels":
        p = np.full(m, 0.9 / m)
        y = armodels.armodel_sim(p, x, 0., None)
        armodels.armodel_residual(p, y, 0., None)
    elif fn == "var2h":
        idx = pd.date_range("2001-01-01", periods=n, freq="7min")
        dutils.var2h(pd.Series(x, index=idx))
    elif fn == "pareto_front":
        P = np.column_stack([_ramp(n, c["kind"]), -_ramp(n, c["kind"]),
                             np.arange(n) % 11.])[:, :m]
        sutils.pareto_front(np.ascontiguousarray(P), 1)
    elif fn == "olsleverage":
        X = np.column_stack([np.ones(n)] + [_ramp(n, "finite") ** (k + 1)
                                            for k in range(m - 1)])
        c_hydrodiy_stat.olsleverage(np.ascontiguousarray(X), np.eye(m),
                                    np.zeros(n))
    elif fn == "catchment":
        fd = _chain_grid(n, m)
        ca = Catchment("c", fd)
        ca.delineate_area(n * m - 1)
        ca.delineate_boundary()
        ca.compute_flowpathlengths()
        ca.upstream(np.arange(0, n * m, 7, dtype=np.int64))
        ca.downstream(np.arange(0, n * m, 7, dtype=np.int64))
        ca.intersect(Grid("g", max(m // 10, 1), max(n // 10, 1),
                          cellsize=10.))
        voronoi(ca, np.array([[0.5, 0.5], [m - 0.5, n - 0.5],
                              [m / 2, n / 2]]))
        delineate_river(fd, 0)
    elif fn == "accumulate":
        fd = _chain_grid(n, m)
        accumulate(fd, nprint=10**9, max_accumulated_cells=n * m)
        slope(fd, fd.clone(np.float64), nprint=10**9)
    elif fn == "points_inside_polygon":
        t = np.linspace(0, 2 * np.pi, m)
        poly = np.column_stack([np.cos(t), np.sin(t)])
        pts = np.column_stack([_ramp(n, "finite") % 3 - 1.5,
                               _ramp(n, "finite")[::-1] % 3 - 1.5])
        gutils.points_inside_polygon(np.ascontiguousarray(pts), poly)
    else:
        raise KeyError(fn)


LARGE = [
    # fn, n, m (quick) ; (thorough adds the entries flagged True)
    ("dscore", 3, 600_000, False), ("ensrank", 2, 300_000, False),
    ("dscore", 40, 20_000, True), ("ensrank", 3, 2_000_000, True),
    ("crps", 3000, 500, False), ("crps", 3, 600_000, False),
    ("crps", 200_000, 3, True),
    ("pit+alpha", 2000, 300, False), ("pit+alpha", 3, 600_000, True),
    ("uniformity", 1_000_000, 0, False), ("uniformity", 65_536, 0, False),
    ("uniformity", 46_341, 0, False),
    ("aggregate", 2_000_000, 30, False), ("aggregate", 2_000_000, 0, True),
    ("qualitycontrol", 2_000_000, 0, False),
    ("signatures", 2_000_000, 0, False),
    ("armodels", 1_000_000, 3, False), ("armodels", 100_000, 12, True),
    ("var2h", 300_000, 0, False),
    ("pareto_front", 3000, 3, False), ("pareto_front", 20_000, 2, True),
    ("olsleverage", 300_000, 4, False),
    ("catchment", 300, 300, False), ("catchment", 2, 100_000, True),
    ("catchment", 100_000, 2, True), ("catchment", 1500, 1500, True),
    ("accumulate", 300, 300, False), ("accumulate", 3, 100_000, True),
    ("points_inside_polygon", 300_000, 50, False),
]


def large_enum(tier):
    for fn, n, m, thorough_only in LARGE:
        if thorough_only and tier != "thorough":
            continue
        for kind in (("finite",) if tier == "quick"
                     else ("finite", "nan-sprinkled", "constant")):
            yield {"fn": fn, "n": n, "m": m, "kind": kind, "extreme": True}


def large_oracle(case):
    global TIMEOUT
    old, TIMEOUT = TIMEOUT, 240
    try:
        res = forked(lambda: seeded(large_call, case))
    finally:
        TIMEOUT = old
    if res == "TIMEOUT":
        return {"nt": False, "labels": ["timeout:inconclusive:" + case["fn"]]}
    if res is not None:
        raise Violation(f"sanitizer/crash [{bucket(res)}]: {res}")
    return {"nt": True, "labels": ["large:" + case["fn"]]}


SUBS.append(Sub("C05.large-sizes", large_oracle, enumerate=large_enum,
                shards=(8, 16), budget=(900, 7200),
                bucket=lambda msg: bucket(msg.split("]: ", 1)[-1])))


# ------------------------------------------------------ read-only mapped input
# Data loaded with np.load(..., mmap_mode="r") / np.memmap(mode="r") live in
# pages the process may not write: a kernel that sorts or fills its input in
# place dies with SIGSEGV.
def _ro(a, tag):
    a = np.ascontiguousarray(a)
    d = os.path.join(os.path.dirname(os.path.dirname(os.path.dirname(
        os.path.abspath(__file__)))), "out", "tmp")
    os.makedirs(d, exist_ok=True)
    f = os.path.join(d, f"ro-{os.getpid()}-{tag}.dat")
    a.tofile(f)
    if a.size == 0:
        return a
    m = np.memmap(f, dtype=a.dtype, mode="r", shape=a.shape)
    os.unlink(f)
    return m


RO_FUNCS = {
    "anderson_darling_test": lambda u, e, idx: metrics.anderson_darling_test(
        _ro(u, "u")),
    "cramer_von_mises_test": lambda u, e, idx: metrics.cramer_von_mises_test(
        _ro(u, "u")),
    "crps": lambda u, e, idx: metrics.crps(_ro(u, "u"), _ro(e, "e")),
    "dscore": lambda u, e, idx: metrics.dscore(_ro(u, "u"), _ro(e, "e")),
    "pit+alpha": lambda u, e, idx: (metrics.pit(_ro(u, "u"), _ro(e, "e")),
                                    metrics.alpha(_ro(u, "u"), _ro(e, "e"),
                                                  type="AD")),
    "corr+iqr": lambda u, e, idx: (metrics.corr(_ro(u, "u"), _ro(e, "e")),
                                   metrics.iqr(_ro(e, "e"), _ro(e, "e2"))),
    "aggregate+flathomogen": lambda u, e, idx: (
        dutils.aggregate(_ro(idx, "i"), _ro(u, "u")),
        dutils.flathomogen(_ro(idx, "i"), _ro(u, "u")),
        signatures.goue(_ro(idx, "i"), _ro(u, "u"))),
    "qualitycontrol": lambda u, e, idx: (
        qualitycontrol.islinear(_ro(u, "u"), 2, 1e-6, 0.),
        qualitycontrol.ismisscens(_ro(u, "u"))),
    "signatures": lambda u, e, idx: (signatures.eckhardt(_ro(u, "u")),
                                     signatures.fdcslope(_ro(u, "u"))),
    "armodels": lambda u, e, idx: (
        armodels.armodel_sim(_ro(np.array([0.5, -0.2]), "p"), _ro(u, "u")),
        armodels.armodel_residual(_ro(np.array([0.5, -0.2]), "p"),
                                  _ro(u, "u"), 0.)),
    "pareto_front": lambda u, e, idx: sutils.pareto_front(_ro(e, "e")),
    "points_inside_polygon": lambda u, e, idx: gutils.points_inside_polygon(
        _ro(e[:, :2], "pts"), _ro(np.array([[0., 0.], [1., 0.], [1., 1.],
                                            [0., 1.]]), "poly")),
    "grid-queries": lambda u, e, idx: (
        Grid("g", 4, 4).coord2cell(_ro(e[:, :2] * 4, "xy")),
        Grid("g", 4, 4).cell2coord(_ro(idx % 16, "c")),
        Grid("g", 4, 4).slice(_ro(e[:2, :2] * 4, "sl"))),
}


@st.composite
def ro_case(draw):
    n = draw(st.sampled_from([2, 3, 5, 9, 40]))
    return {"fn": draw(st.sampled_from(sorted(RO_FUNCS))), "n": n,
            "m": draw(st.integers(2, 4)),
            "seed": draw(st.integers(0, 10**6)), "extreme": True}


@entry("readonly-mapped-inputs", ro_case(), n=(150, 1500), shards=(2, 4))
def _(c):
    rng = np.random.RandomState(c["seed"])
    u = rng.uniform(0.01, 0.99, size=c["n"])            # unsorted, in (0, 1)
    e = rng.uniform(0.01, 0.99, size=(c["n"], c["m"]))
    idx = np.sort(rng.randint(0, 3, size=c["n"])).astype(np.int64)
    RO_FUNCS[c["fn"]](u, e, idx)


# ------------------------------------------- sizes at and around round numbers
# (internal work buffers of a fixed size: 10, 100, 128, 500, 512, 1000, ...)
SIZES = [9, 10, 11, 15, 16, 17, 31, 32, 33, 63, 64, 65, 99, 100, 101, 127,
         128, 129, 199, 200, 201, 255, 256, 257, 499, 500, 501, 511, 512, 513,
         999, 1000, 1001, 1023, 1024, 1025]


def sizes_enum(tier):
    sizes = SIZES if tier == "quick" else SIZES + [
        1999, 2000, 2001, 2047, 2048, 2049, 4095, 4096, 4097, 9999, 10000,
        10001, 16383, 16384, 16385]
    for fn in ("crps", "dscore+pit", "ad+cvm", "aggregate", "armodels",
               "pareto", "polygon", "inlets"):
        for m in sizes:
            if fn == "inlets" and m > 300:
                continue
            yield {"fn": fn, "m": m, "extreme": True}


def sizes_call(c):
    m, fn = c["m"], c["fn"]
    rng = np.random.RandomState(m)
    if fn == "crps":
        metrics.crps(rng.normal(size=3), rng.normal(size=(3, m)))
        metrics.crps(rng.normal(size=m), rng.normal(size=(m, 3)))
    elif fn == "dscore+pit":
        e = rng.normal(size=(3, m))
        metrics.dscore(np.arange(3.), e)
        metrics.pit(rng.normal(size=3), e)
        metrics.dscore(np.arange(float(m)), rng.normal(size=(m, 2)))
    elif fn == "ad+cvm":
        u = rng.uniform(0.01, 0.99, size=m)
        metrics.anderson_darling_test(u)
        metrics.cramer_von_mises_test(u)
    elif fn == "aggregate":
        x = rng.normal(size=m)
        for idx in (np.zeros(m, dtype=np.int64),
                    np.arange(m, dtype=np.int64),
                    (np.arange(m) // 7).astype(np.int64)):
            dutils.aggregate(idx, x, 1, 0)
            dutils.flathomogen(idx, x, 0)
    elif fn == "armodels":
        x = rng.normal(size=m)
        p = np.full(min(10, max(1, m % 11)), 0.05)
        armodels.armodel_residual(p, armodels.armodel_sim(p, x), 0.)
    elif fn == "pareto":
        sutils.pareto_front(rng.normal(size=(m, 2)))
        sutils.pareto_front(rng.normal(size=(3, min(m, 64))))
    elif fn == "polygon":
        t = np.linspace(0, 2 * np.pi, m, endpoint=False)
        poly = np.column_stack([np.cos(t), np.sin(t) * (1 + 0.3 * (
            np.arange(m) % 2))])
        gutils.points_inside_polygon(rng.uniform(-1.5, 1.5, size=(50, 2)),
                                     poly)
        gutils.points_inside_polygon(rng.uniform(-1.5, 1.5, size=(m, 2)),
                                     poly[:max(3, min(m, 12))])
    elif fn == "inlets":
        # a channel of m + 5 cells with m inlets listed downstream-first
        n = m + 5
        g = Grid("fd", n, 1, dtype=np.int64)
        g.data = np.full((1, n), 16, dtype=np.int64)
        ca = Catchment("c", g)
        ca.delineate_area(0, list(range(n - 1, n - 1 - m, -1)))
        ca.upstream(np.arange(n))
        voronoi(ca, rng.uniform(0, n, size=(min(m, 50), 2)))
    else:
        raise KeyError(fn)


def sizes_oracle(case):
    res = forked(lambda: seeded(sizes_call, case))
    if res == "TIMEOUT":
        return {"nt": False, "labels": ["timeout:inconclusive:" + case["fn"]]}
    if res is not None:
        raise Violation(f"sanitizer/crash [{bucket(res)}]: {res}")
    return {"nt": True, "labels": ["sizes:" + case["fn"]]}


SUBS.append(Sub("C05.sizes-around-round-numbers", sizes_oracle,
                enumerate=sizes_enum, shards=(16, 16), budget=(600, 3600),
                bucket=lambda msg: bucket(msg.split("]: ", 1)[-1])))


# ------------------------------------------------ sweep of the AD statistic
# The p-value code of the Anderson-Darling test switches formulas and tables
# with the value of the statistic: samples (i+0.5)/n raised to a power p sweep
# it continuously from large through its minimum and back.
def adsweep_enum(tier):
    k = 300 if tier == "quick" else 3000
    for n in ((6, 13) if tier == "quick" else (3, 5, 6, 13, 40, 200)):
        for j in range(k):
            yield {"n": n, "p": float(np.exp(np.log(0.3) + j / (k - 1)
                                            * (np.log(4.0) - np.log(0.3)))),
                   "extreme": True}


def adsweep_call(c):
    u = ((np.arange(c["n"]) + 0.5) / c["n"]) ** c["p"]
    metrics.anderson_darling_test(u)
    metrics.cramer_von_mises_test(u)
    metrics.alpha(u * 10, np.sort(np.tile(np.arange(11.), (c["n"], 1)),
                                   axis=1), type="AD")


def adsweep_oracle(case):
    res = forked(lambda: seeded(adsweep_call, case))
    if res == "TIMEOUT":
        return {"nt": False, "labels": ["timeout:inconclusive"]}
    if res is not None:
        raise Violation(f"sanitizer/crash [{bucket(res)}]: {res}")
    return {"nt": True, "labels": [f"n:{case['n']}"]}


SUBS.append(Sub("C05.ad-statistic-sweep", adsweep_oracle,
                enumerate=adsweep_enum, shards=(16, 16), budget=(600, 3600),
                bucket=lambda msg: bucket(msg.split("]: ", 1)[-1])))


# ------------------------------------------------ sweep of the right border
# Whether a point next to the right / top border gets a column one past the
# grid depends on how ncols * cellsize rounds: every width up to 40 (120)
# columns for cell sizes that are not powers of two, with positive, zero and
# negative corners (seeded change C05-c was detected for some seeds only).
def border_enum(tier):
    ncmax = 40 if tier == "quick" else 120
    for csz in (0.05, 0.1, 1. / 3, 0.7, 0.125, 0.008333333333333333):
        for xll in (0., -0.25, 0.3, 112.45):
            for nc in range(1, ncmax + 1):
                yield {"shape": [1 + nc % 2, nc], "csz": csz, "xll": xll}


def border_call(c):
    nr, nc = c["shape"]
    c = dict(c, fd=[1] * (nr * nc), pts=[])
    g = geogrid(c)
    pts = edge_points(c)
    extra = [[round(c["xll"] + nc * c["csz"], 10), 0.5 * c["csz"]],
             [round(c["xll"] + nc * c["csz"], 10), 0.0]]
    pts = np.vstack([pts, np.array(extra)])
    g.coord2cell(pts.copy())
    g.slice(pts.copy())


def border_oracle(case):
    res = forked(lambda: seeded(border_call, case))
    if res == "TIMEOUT":
        return {"nt": False, "labels": ["timeout:inconclusive"]}
    if res is not None:
        raise Violation(f"sanitizer/crash [{bucket(res)}]: {res}")
    return {"nt": True, "labels": [f"cellsize:{case['csz']:.4g}"]}


SUBS.append(Sub("C05.grid-right-border-sweep", border_oracle,
                enumerate=border_enum, shards=(16, 16), budget=(600, 3600),
                bucket=lambda msg: bucket(msg.split("]: ", 1)[-1])))


# ---------------------------------------- grids without rows and / or columns
# (small finite space: every shape x every kernel x a few cell lists)
def empty_grid_enum(tier):
    for shape in ([0, 3], [3, 0], [0, 0], [0, 1], [1, 0], [5, 0]):
        for which in range(13):
            for cells, cell in (([0, 1], 0), ([], -1), ([2, -1, 7], 3)):
                yield {"shape": shape, "cells": cells, "cell": cell,
                       "pts": [[0., 0.], [1.5, -2.]][:1 + which % 2],
                       "csz": [1., 0.5][which % 2], "which": which}


def empty_grid_oracle(case):
    res = forked(lambda: seeded(empty_grid_call, case))
    if res == "TIMEOUT":
        return {"nt": False, "labels": ["timeout:inconclusive"]}
    if res is not None:
        raise Violation(f"sanitizer/crash [{bucket(res)}]: {res}")
    return {"nt": True, "labels": [f"shape:{case['shape'][0]}x"
                                   f"{case['shape'][1]}"]}


SUBS.append(Sub("C05.Grid.without-rows-or-columns", empty_grid_oracle,
                enumerate=empty_grid_enum, shards=(16, 16),
                budget=(600, 3600),
                bucket=lambda msg: bucket(msg.split("]: ", 1)[-1])))
