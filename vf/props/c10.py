"""C10 - rank and PIT based diagnostics depend only on ranks, stay in range."""
import math

import numpy as np
from hypothesis import strategies as st
from scipy.stats import rankdata

from vf.core import Sub, Violation, Skip
from hydrodiy.stat import metrics
import c_hydrodiy_stat

PROPERTY = "C10"
RULE = ("(a) ensrank/dscore: n in 2..10 forecasts (thorough 40) x m in 1..6 "
        "members (thorough 20), forecast values on a half-integer lattice in "
        "[-3, 3] (exact ties, distinct values 0.5 apart >> the 1e-6 tie "
        "tolerance), distinct observations on an interleaved lattice; "
        "regimes random / ensembles identical across forecasts / single "
        "member / strictly ordered ensembles and their negation; monotone "
        "maps exp(x/10), arctan(x/10), x^3+x, 3x-7, 1e-3x+1e3. Oracle: "
        "independent Weigel-Mason implementation with scipy mid-ranks, range, "
        "perfect/inverse values, invariance under monotone maps and member "
        "permutations, independence from an earlier call made with another "
        "tie tolerance, score = (corr(obs ranks, forecast ranks)+1)/2. "
        "(b) pit: integer members, half-integer or integer observations, "
        "random on/off, cst in [0, .5], censoring thresholds; oracle: range, "
        "strict monotonicity in the count of members below, pseudo-PIT flag. "
        "(c) uniformity: 1..400 values in (0,1) from uniform/U-shaped/spiked/"
        "one-sided shapes, shuffled; oracle: textbook CvM and AD statistics, "
        "order independence, p-values in [0,1], rejection of out-of-range/NaN "
        "data. Non-trivial = tie between members of two forecasts, identical "
        "ensembles, m = 1, a censored PIT case, or n >= 8 for uniformity.")

unit = st.floats(0., 1., allow_nan=False)
MAPS = {
    "exp": lambda x: np.exp(x / 10),
    "arctan": lambda x: np.arctan(x / 10),
    "cubic": lambda x: x**3 + x,
    "affine": lambda x: 3 * x - 7,
    "tiny-affine": lambda x: 1e-3 * x + 1e3,
}


# ------------------------------------------------------------------ ensrank
def ref_ranks(sim):
    n, m = sim.shape
    ranks = np.ones(n)
    F = np.zeros((n, n))
    for i in range(n):
        for j in range(i + 1, n):
            r = rankdata(np.concatenate([sim[i], sim[j]]))
            f = (r[:m].sum() - m * (m + 1) / 2) / m / m
            F[i, j] = f
            u = 0. if f < 0.5 - 1e-8 else 1. if f > 0.5 + 1e-8 else 0.5
            ranks[i] += u
            ranks[j] += 1 - u
    return F, ranks


@st.composite
def rank_case(draw, tier):
    big = tier == "thorough" and draw(st.integers(0, 9)) == 0
    n = draw(st.integers(2, 40 if big else 10))
    m = draw(st.integers(1, 20 if big else 6))
    regime = draw(st.sampled_from(["random", "random", "identical", "single",
                                   "ordered", "reversed", "zero-spread"]))
    if regime == "single":
        m = 1
    lat = st.integers(-6, 6)
    if regime in ("random", "single"):
        sim = [[draw(lat) / 2 for _ in range(m)] for _ in range(n)]
    elif regime == "zero-spread":
        # every forecast issues one value for all its members (dry spells,
        # deterministic forecasts copied into m columns), with ties between
        # forecasts
        m = max(m, 2)
        vals = [draw(st.integers(-2, 2)) / 2 for _ in range(n)]
        sim = [[v] * m for v in vals]
    elif regime == "identical":
        rows = [[draw(lat) / 2 for _ in range(m)]
                for _ in range(draw(st.integers(1, 2)))]
        sim = [rows[draw(st.integers(0, len(rows) - 1))] for _ in range(n)]
    else:
        sim = None
    obs_perm = draw(st.permutations(list(range(n))))
    obs = [p - n / 2 + 0.25 for p in obs_perm]
    if sim is None:
        sg = 1.0 if regime == "ordered" else -1.0
        sim = [[sg * (8 * o + draw(st.integers(0, 2))) for _ in range(m)]
               for o in obs]
    return {"obs": obs, "sim": sim, "regime": regime,
            # tie tolerance: lattice values are 0.5 apart, i.e. separated by
            # more than any of these
            "eps": draw(st.sampled_from([1e-6, 1e-6, 1e-12, 1e-3, 0.3])),
            # an earlier, unrelated call in the same process with another
            # tie tolerance (values there are 10 apart)
            "pre_eps": draw(st.sampled_from([None, None, 1e-9, 0.3, 2.0])),
            "fmap": draw(st.sampled_from(sorted(MAPS))),
            "gmap": draw(st.sampled_from(sorted(MAPS))),
            "perm": draw(st.permutations(list(range(m)))),
            "rowperm": [draw(st.permutations(list(range(m))))
                        for _ in range(n)]}


def rank_oracle(case):
    obs = np.array(case["obs"], dtype=np.float64)
    sim = np.array(case["sim"], dtype=np.float64)
    n, m = sim.shape
    labels = [f"regime:{case['regime']}"]
    if case.get("pre_eps") is not None:
        labels.append("earlier-call-with-other-eps")
        pre = metrics.dscore(np.array([0., 1., 2.]),
                             np.array([[0., 10.], [100., 110.], [200., 210.]]),
                             eps=case["pre_eps"])
        if abs(pre - 1) > 1e-12:
            raise Violation(f"perfectly ordered forecasts score {pre!r} with "
                            f"eps={case['pre_eps']}")
    # ensemble ranks against the independent implementation
    fmat = np.zeros((n, n))
    ranks = np.zeros(n)
    eps_ = case.get("eps", 1e-6)
    labels.append(f"eps:{eps_}")
    ierr = c_hydrodiy_stat.ensrank(eps_, sim.copy(), fmat, ranks)
    F, R = ref_ranks(sim)
    if ierr != 0:
        raise Violation(f"ensrank returns error {ierr}")
    if not np.allclose(np.triu(fmat, 1), F, atol=1e-12, rtol=0):
        i, j = np.argwhere(np.abs(np.triu(fmat, 1) - F) > 1e-12)[0]
        raise Violation(
            f"ensrank F[{i},{j}] = {fmat[i, j]!r}, mid-rank reference "
            f"{F[i, j]!r}; ensembles {sim[i].tolist()} / {sim[j].tolist()}")
    if not np.allclose(ranks, R, atol=1e-12, rtol=0):
        raise Violation(f"ensrank ranks {ranks.tolist()} != reference "
                        f"{R.tolist()} for {sim.tolist()}")
    if abs(ranks.sum() - n * (n + 1) / 2) > 1e-9:
        raise Violation("ensemble ranks do not add up to n(n+1)/2")
    cross_tie = any(len(set(sim[i]) & set(sim[j])) > 0
                    for i in range(n) for j in range(i + 1, n))
    ident = any(np.array_equal(sim[i], sim[j])
                for i in range(n) for j in range(i + 1, n))
    if cross_tie:
        labels.append("tie:across-forecasts")
    if ident:
        labels.append("identical-ensembles")
    nt = cross_tie or ident or m == 1

    D = metrics.dscore(obs, sim.copy(), eps=eps_) if eps_ != 1e-6 \
        else metrics.dscore(obs, sim.copy())
    # reference forecast ranks as dscore defines them
    fr = np.argsort(np.argsort(sim[:, 0])) if m == 1 else R
    if np.std(fr) == 0:
        # every forecast receives the same rank: 0/0 correlation
        labels.append("degenerate:all-forecasts-tie")
        return {"nt": nt, "labels": labels}
    if m == 1 and len(set(sim[:, 0])) < n:
        # argsort ranks of tied deterministic forecasts depend on the sort
        labels.append("single-member-ties:not-judged")
        if not (0 - 1e-12 <= D <= 1 + 1e-12):
            raise Violation(f"dscore {D!r} outside [0, 1]")
        return {"nt": nt, "labels": labels}
    if not (isinstance(D, float) and -1e-12 <= D <= 1 + 1e-12):
        raise Violation(f"dscore {D!r} outside [0, 1]")
    orank = rankdata(obs) - 1
    ref = (np.corrcoef(orank, fr)[0, 1] + 1) / 2
    if abs(D - ref) > 1e-12:
        raise Violation(f"dscore {D!r} != (corr(obs ranks, forecast ranks)"
                        f"+1)/2 = {ref!r}")
    if case["regime"] == "ordered" and abs(D - 1) > 1e-12:
        raise Violation(f"perfectly ordered forecasts score {D!r}, not 1")
    if case["regime"] == "reversed" and abs(D) > 1e-12:
        raise Violation(f"inversely ordered forecasts score {D!r}, not 0")
    f, g = MAPS[case["fmap"]], MAPS[case["gmap"]]
    # the map must keep distinct values further apart than the tie
    # tolerance (exp(x/10) squeezes large negative values together)
    gv = np.unique(g(sim))
    g_ok = len(gv) < 2 or np.min(np.diff(gv)) > 100 * max(eps_, 1e-6)
    if not g_ok:
        labels.append("map-squeezes-values:not-judged")
    for what, d in [
        (f"monotone map {case['fmap']} of the observations",
         metrics.dscore(f(obs), sim.copy(), eps=eps_)),
        (f"monotone map {case['gmap']} of the forecasts",
         metrics.dscore(obs, np.ascontiguousarray(g(sim)), eps=eps_)
         if g_ok else D),
        ("a common member permutation",
         metrics.dscore(obs, np.ascontiguousarray(sim[:, case["perm"]]),
                        eps=eps_)),
        ("independent member permutations",
         metrics.dscore(obs, np.array([sim[i][case["rowperm"][i]]
                                       for i in range(n)]), eps=eps_)),
    ]:
        if not abs(d - D) <= 1e-12:
            raise Violation(f"dscore changes under {what}: {D!r} -> {d!r}")
    return {"nt": nt, "labels": labels}


# ---------------------------------------------------------------------- pit
@st.composite
def pit_case(draw, tier):
    n = draw(st.integers(1, 12))
    m = draw(st.integers(1, 8))
    ens = [[float(draw(st.integers(-5, 5))) for _ in range(m)]
           for _ in range(n)]
    tied = draw(st.booleans())
    obs = [float(draw(st.integers(-5, 4))) + (0.0 if tied else 0.5)
           for _ in range(n)]
    return {"obs": obs, "ens": ens, "tied": tied,
            "random": draw(st.booleans()),
            "cst": draw(st.one_of(unit.map(lambda u: u / 2),
                                  st.sampled_from([0., 0.3, 0.5]))),
            "censor": draw(st.sampled_from([-2., 0., -2.25, 3., -10.])),
            # how an observation tied with members is counted
            "kind": draw(st.sampled_from(["rank", "rank", "weak", "strict",
                                          "mean"])),
            "sudo": draw(st.sampled_from([5, 5, 0, 50, 100])),
            "seed": draw(st.integers(0, 2**31 - 1))}


def pit_oracle(case):
    obs = np.array(case["obs"])
    ens = np.array(case["ens"])
    n, m = ens.shape
    censor = case["censor"]
    np.random.seed(case["seed"])
    kind = case.get("kind", "rank")
    kw = {} if kind == "rank" else {"kind": kind}
    p, s = metrics.pit(obs.copy(), ens.copy(), random=case["random"],
                       cst=case["cst"], censor=censor, **kw)
    labels = [f"random:{case['random']}", f"obs-ties:{case['tied']}",
              f"kind:{kind}"]
    np.random.seed(case["seed"])
    p2, s2 = metrics.pit(obs.tolist(), ens.tolist(), random=case["random"],
                         cst=case["cst"], censor=censor, **kw)
    if not (np.array_equal(p, p2) and np.array_equal(s, s2)):
        raise Violation("pit differs between array and list input")
    if p.shape != (n,) or s.shape != (n,):
        raise Violation(f"pit shapes {p.shape} {s.shape}")
    if np.any(p < 0) or np.any(p > 1) or np.any(np.isnan(p)):
        raise Violation(f"pit outside [0, 1]: {p.tolist()}")
    if case["random"] and case["cst"] < 0.5 and \
            (np.any(p <= 0) or np.any(p >= 1)):
        # (count + .5 - cst)/(1 - cst + m) is inside (0, 1) for cst < .5
        raise Violation(f"randomised pit not strictly inside (0, 1): {p}")
    cnt = (ens < obs[:, None]).sum(axis=1)
    tie = (ens == obs[:, None]).any(axis=1)
    if not case["tied"] or not tie.any():
        order = np.argsort(cnt, kind="stable")
        for a, b in zip(order[:-1], order[1:]):
            if cnt[a] < cnt[b] and not p[a] < p[b]:
                raise Violation(
                    f"pit not increasing with the number of members below "
                    f"the observation: counts {cnt[a]}, {cnt[b]} -> "
                    f"{p[a]!r}, {p[b]!r} (random={case['random']}, "
                    f"cst={case['cst']})")
            if cnt[a] == cnt[b] and abs(p[a] - p[b]) > 1e-12:
                raise Violation("equal counts give different pit values")
        if not case["random"]:
            if not np.allclose(p, cnt / m, atol=1e-12):
                raise Violation(f"pit {p.tolist()} != fraction of members "
                                f"below {(cnt / m).tolist()}")
        else:
            c = min(0.5, case["cst"])
            e = (cnt + 0.5 - c) / (1 - c + m)
            if not np.allclose(p, e, atol=1e-12):
                raise Violation(f"randomised pit {p.tolist()} != plotting "
                                f"position {(e).tolist()}")
    if not case["random"]:
        # with ties: members below / at or below the observation, combined
        # as the documented kinds of a percentile score
        left = cnt
        right = (ens <= obs[:, None]).sum(axis=1)
        e = {"strict": left / m, "weak": right / m,
             "mean": (left + right) / 2 / m,
             "rank": (left + right + (right > left)) / 2 / m}[kind]
        if not np.allclose(p, e, atol=1e-12):
            raise Violation(f"pit(kind={kind}) {p.tolist()} != "
                            f"{e.tolist()} for {left.tolist()} members "
                            f"below and {right.tolist()} at or below the "
                            "observations")
    es = (obs <= censor) & ((ens <= censor).sum(axis=1) > 0)
    if not np.array_equal(np.asarray(s, dtype=bool), es):
        raise Violation(
            f"pseudo-pit flag {np.asarray(s).tolist()} != (obs <= censor "
            f"and some member <= censor) {es.tolist()} with censor={censor}")
    if es.any():
        labels.append("censored")
    # alpha p-values
    for ty in ("CV", "KS", "AD"):
        np.random.seed(case["seed"])
        st_, pv, _ = metrics.alpha(obs.copy(), ens.copy(), type=ty)
        if not (0 <= pv <= 1):
            raise Violation(f"alpha({ty}) p-value {pv!r} outside [0, 1]")
        np.random.seed(case["seed"])
        st_, pv, _ = metrics.alpha(obs.copy(), ens.copy(), cst=case["cst"],
                                   type=ty,
                                   sudo_perc_threshold=case.get("sudo", 5))
        if not (0 <= pv <= 1):
            raise Violation(f"alpha({ty}, cst={case['cst']}, "
                            f"sudo_perc_threshold={case.get('sudo', 5)}) "
                            f"p-value {pv!r} outside [0, 1]")
    return {"nt": bool(es.any()), "labels": labels}


# --------------------------------------------------------------- uniformity
@st.composite
def unif_case(draw, tier):
    n = draw(st.integers(1, 400 if tier == "thorough" else 120))
    shape = draw(st.sampled_from(["uniform", "ushape", "spike", "onesided",
                                  "edge", "regular", "regular"]))
    us = [draw(unit) for _ in range(n)]
    if shape == "uniform":
        v = us
    elif shape == "ushape":
        v = [0.5 - 0.5 * math.cos(math.pi * u) for u in us]
    elif shape == "spike":
        v = [0.49 + 0.02 * u for u in us]
    elif shape == "onesided":
        v = [u ** 8 for u in us]
    elif shape == "regular":
        # evenly spread values (far more regular than a random sample):
        # plotting positions with a small jitter
        jit = draw(st.sampled_from([0., 0., 0.05, 0.3]))
        cst = draw(st.sampled_from([0.5, 0.3, 0.0]))
        v = [(i + 1 - cst + jit * (u - 0.5)) / (n + 1 - 2 * cst)
             for i, u in enumerate(us)]
    else:
        v = [draw(st.sampled_from([1e-12, 1 - 1e-12, 1e-300, 0.5, 1 - 1e-16]))
             for _ in us]
    v = [min(max(x, 1e-300), 1 - 1e-16) for x in v]
    return {"u": v, "shape": shape,
            "perm": draw(st.permutations(list(range(n)))),
            "bad": draw(st.sampled_from([-1e-9, 1 + 1e-9, float("nan"), 2.,
                                         -0.5, float("inf"), -1e-17,
                                         -1e-300, -5e-324, 1 + 2.**-52,
                                         float("-inf"), -2.**-53, 1e300,
                                         -1e-16])),
            "badpos": draw(st.integers(0, n))}


def unif_oracle(case):
    u = np.array(case["u"], dtype=np.float64)
    n = len(u)
    s = np.sort(u)
    i = np.arange(1, n + 1)
    labels = [f"shape:{case['shape']}"]
    cv, pv = metrics.cramer_von_mises_test(u.copy())
    e = 1 / (12 * n) + np.sum(((2 * i - 1) / (2 * n) - s) ** 2)
    if abs(cv - e) > 1e-12 * max(1., e):
        raise Violation(f"CvM statistic {cv!r} != textbook {e!r}")
    if not (0 <= pv <= 1):
        raise Violation(f"CvM p-value {pv!r} outside [0, 1]")
    ad, pa = metrics.anderson_darling_test(u.copy())
    ea = -n - np.sum((2 * i - 1) * (np.log(s) + np.log1p(-s[::-1]))) / n
    if not abs(ad - ea) <= 1e-9 * max(1., abs(ea)):
        raise Violation(f"AD statistic {ad!r} != textbook {ea!r} (n={n})")
    if not (0 <= pa <= 1):
        raise Violation(f"AD p-value {pa!r} outside [0, 1] (stat {ad!r}, "
                        f"n={n})")
    up = u[np.array(case["perm"], dtype=int)]
    cv2, pv2 = metrics.cramer_von_mises_test(up.copy())
    ad2, pa2 = metrics.anderson_darling_test(up.copy())
    if abs(cv2 - cv) > 1e-12 * max(1., cv) or pv2 != pv and \
            abs(pv2 - pv) > 1e-12:
        raise Violation("CvM depends on the order of the data")
    if abs(ad2 - ad) > 1e-9 * max(1., abs(ad)) or abs(pa2 - pa) > 1e-9:
        raise Violation("AD depends on the order of the data")
    # rejection
    bad = np.insert(u, case["badpos"], case["bad"])
    try:
        r = metrics.anderson_darling_test(bad.copy())
    except ValueError:
        labels.append("rejected")
    else:
        raise Violation(f"anderson_darling_test accepted the value "
                        f"{case['bad']!r}: {r}")
    return {"nt": n >= 8, "labels": labels}


def enum_sizes(tier):
    ms = [31, 32, 33, 127, 128, 129, 255, 256, 257] if tier == "quick" else \
        [31, 32, 33, 63, 64, 65, 127, 128, 129, 255, 256, 257, 511, 512, 513,
         1023, 1024, 1025, 4097]
    for m in ms:
        yield {"m": m, "n": 4, "ties": False}
        yield {"m": m, "n": 3, "ties": True}
    for n in ([33, 64, 129] if tier == "quick" else [33, 64, 129, 257, 513]):
        yield {"m": 3, "n": n, "ties": True}


def sizes_oracle(case):
    """Member / forecast counts at and around powers of two against the
    mid-rank reference."""
    n, m = case["n"], case["m"]
    rng = np.random.RandomState(n * 10000 + m)
    sim = rng.normal(size=(n, m)) * 3
    if case["ties"]:
        sim = np.round(sim * 2) / 2
    else:
        # distinct values, well separated from each other
        sim = (np.argsort(np.argsort(sim.ravel())).reshape(n, m)
               / 2.0).astype(np.float64)
    obs = rng.permutation(n).astype(np.float64) + 0.25
    fmat, ranks = np.zeros((n, n)), np.zeros(n)
    ierr = c_hydrodiy_stat.ensrank(1e-6, sim.copy(), fmat, ranks)
    F, R = ref_ranks(sim)
    if ierr != 0 or not np.allclose(np.triu(fmat, 1), F, atol=1e-12,
                                    rtol=0) \
            or not np.allclose(ranks, R, atol=1e-12, rtol=0):
        raise Violation(f"ensrank on {n} forecasts x {m} members: ierr "
                        f"{ierr}, ranks {ranks.tolist()[:6]} vs mid-rank "
                        f"reference {R.tolist()[:6]}")
    D = metrics.dscore(obs, sim.copy())
    if np.std(R) > 0:
        ref = (np.corrcoef(rankdata(obs) - 1, R)[0, 1] + 1) / 2
        if abs(D - ref) > 1e-12:
            raise Violation(f"dscore on {n} x {m}: {D!r} != {ref!r}")
    p, s_ = metrics.pit(obs.copy(), sim.copy())
    cnt = (sim < obs[:, None]).sum(axis=1)
    right = (sim <= obs[:, None]).sum(axis=1)
    e = (cnt + right + (right > cnt)) / 2 / m
    if not np.allclose(p, e, atol=1e-12):
        raise Violation(f"pit on {n} x {m} members differs from the "
                        "percentile score")
    return {"nt": True, "labels": [f"m:{m}", f"n:{n}"]}


def enum_sweep(tier):
    """Samples ((i+0.5)/n)^p: the uniformity statistics sweep continuously
    from large through their minimum and back (the p-value code switches
    formulas and tables with the value of the statistic)."""
    k = 200 if tier == "quick" else 2000
    for n in ((3, 6, 13, 40) if tier == "quick" else (1, 2, 3, 5, 6, 13, 40,
                                                       200, 400)):
        for j in range(k):
            yield {"n": n, "j": j, "k": k}


def sweep_oracle(case):
    n, j, k = case["n"], case["j"], case["k"]
    pw = float(np.exp(np.log(0.2) + j / (k - 1) * (np.log(6.0)
                                                   - np.log(0.2))))
    u = ((np.arange(n) + 0.5) / n) ** pw
    u = np.clip(u, 1e-300, 1 - 1e-16)
    perm = ((np.arange(n) * 7 + 3) % n) if n % 7 else np.arange(n)[::-1]
    res = unif_oracle({"u": u.tolist(), "shape": "sweep",
                       "perm": perm.tolist(), "bad": 2.0, "badpos": 0})
    return {"nt": True, "labels": [f"n:{n}"]}


SUBS = [
    Sub("C10.statistic-sweep", sweep_oracle, enumerate=enum_sweep,
        shards=(8, 16)),
    Sub("C10.sizes-around-powers-of-two", sizes_oracle, enumerate=enum_sizes,
        shards=(8, 16)),
    Sub("C10.ensrank+dscore", rank_oracle, strategy=rank_case,
        n=(1000, 10000), shards=(8, 16)),
    Sub("C10.pit+alpha", pit_oracle, strategy=pit_case,
        n=(500, 5000), shards=(8, 16)),
    Sub("C10.cvm+ad", unif_oracle, strategy=unif_case,
        n=(600, 8000), shards=(8, 16)),
]
