"""C02 - the Jacobian is the derivative of forward; forward is increasing."""
import math

import numpy as np
from hypothesis import strategies as st

from vf.core import Sub, Violation, Skip
from vf.props import tr_common as tc
from hydrodiy.stat import transform as T

PROPERTY = "C02"
RULE = ("Per transform class: parameters/constants as in C01 (branch values "
        "weighted), evaluation points constructed in the transformed "
        "variable and kept a 5-point stencil away from branch changes; step "
        "h = power of two just below 1e-3 * local length scale so x+-h, "
        "x+-2h are exact. Oracle (i) central difference of forward agrees "
        "with jacobian to 1e-4 relative (Softmax: determinant of the matrix "
        "of partial derivatives), (ii) jacobian > 0 and finite, (iii) for "
        "ordered pairs x1 < x2 at relative separations 2^-k (k = 0..44, down "
        "to one ulp) forward(x2) - forward(x1) >= -8*noise and > 0 when "
        "jacobian*(x2-x1) > 64*noise, noise being an a-priori rounding model "
        "of the class. Non-trivial = parameters differ from defaults and "
        "|jacobian*scale - 1| > 1e-3 somewhere (not an identity-like map).")

EPS = tc.EPS
eps = tc.eps
JTOL = 1e-4


def fd5(f, x, h):
    return (-f(x + 2 * h) + 8 * f(x + h) - 8 * f(x - h) + f(x - 2 * h)) \
        / (12 * h)


def fd_mask(cls, case, pts, h):
    """Points whose stencil stays inside one smooth branch / the domain."""
    x = pts["x"]
    if cls in ("Log", "BoxCox2", "BoxCox1lam", "BoxCox1nu", "Reciprocal"):
        if cls == "Reciprocal":
            # domain x + nu > 0, whatever mininu
            return (pts["z"] - 2 * h > 1e-9) & \
                (pts["z"] + 2 * h < 0.999 / pts["mininu"])
        return pts["z"] - 2 * h > pts["mininu"] * 1.001
    if cls == "BoxCox2sym":
        return np.abs(x) > 3 * h
    if cls == "YeoJohnson":
        sc = pts["scale"]
        return np.abs(pts["w"] - EPS) > 3 * h * sc
    if cls == "Logit":
        lo, up = pts["lower"], pts["upper"]
        return (x - 2 * h > lo + 2 * EPS) & (x + 2 * h < up - 2 * EPS) \
            & (h > 1e5 * eps * (abs(lo) + (up - lo)))
    if cls == "LogSinh":
        return pts["w"] * (1 - 3e-3) > 1e-4 * 0.5
    if cls == "Manly" and "t" in pts:
        # below lam*x/xmax = -13.8 forward is flat to within rounding: a
        # finite difference cannot resolve exp(t) (positivity still judged)
        return pts["t"] >= -13.8
    return np.ones(len(x), dtype=bool)


def _bc_noise(x, nu, lam, y):
    """expm1(lam*log(x + nu))/lam (log(x + nu) at lam = 0): the argument of
    expm1 carries the rounding of x + nu (relative eps, more when x and nu
    cancel) and of the logarithm; expm1 and the division add relative eps.
    No 1/|lam| amplification: nothing is subtracted from a power."""
    z = x + nu
    darg = 1 + np.abs(np.log(z)) + (np.abs(x) + abs(nu)) / z
    return 4 * eps * (np.abs(y) + np.power(z, lam) * darg)


def noise_model(cls, t, case, x, y):
    """A-priori magnitude of the rounding error of forward(x)."""
    if cls == "Identity":
        return 0 * np.abs(y)
    if cls == "Log":
        nu = tc.getp(t, "nu")
        return eps * (np.abs(y) + (1 + nu / (x + nu)) / abs(t.basefactor))
    if cls in ("BoxCox2", "BoxCox1lam", "BoxCox1nu"):
        nu, lam = tc.getp(t, "nu"), tc.getp(t, "lam")
        return _bc_noise(x, nu, lam, y)
    if cls == "BoxCox2sym":
        nu, lam = tc.getp(t, "nu"), tc.getp(t, "lam")
        y0 = math.log(nu) if abs(lam) <= EPS \
            else math.expm1(lam * math.log(nu)) / lam
        # BC(|x|) - BC(0): both terms carry their own rounding
        yb = np.abs(y) + abs(y0)
        return _bc_noise(np.abs(x), nu, lam, yb) \
            + _bc_noise(np.zeros(1), nu, lam, np.array([abs(y0)]))[0] \
            + eps * yb
    if cls == "YeoJohnson":
        nu, sc, lam = (tc.getp(t, "nu"), tc.getp(t, "scale"),
                       tc.getp(t, "lam"))
        ww = nu + x * sc
        ex = np.where(ww >= EPS, lam, 2 - lam)
        # power branches: ((|w|+1)^ex - 1)/ex amplifies rounding by 1/|ex|
        amp = np.where(np.isclose(ex, 0.0), 1.,
                       1. / np.minimum(1., np.maximum(np.abs(ex), 1e-300)))
        return eps * (np.abs(y) + 1
                      + (1 + np.power(np.abs(ww) + 1, ex)) * amp
                      * (1 + (abs(nu) + np.abs(ww)) / (np.abs(ww) + 1)))
    if cls == "Sinh":
        nu, sc = tc.getp(t, "nu"), tc.getp(t, "scale")
        return eps * (np.abs(y) + (np.abs(x) + abs(nu)) * sc
                      / np.sqrt(1 + ((x - nu) * sc) ** 2))
    if cls == "Reciprocal":
        nu = tc.getp(t, "nu")
        return eps * np.abs(y) * (2 + nu / (x + nu))
    if cls == "LogSinh":
        a, b = math.exp(tc.getp(t, "loga")), math.exp(tc.getp(t, "logb"))
        xmax = tc.getp(t, "xmax")
        ww = a + b * x / xmax
        return eps * (np.abs(y) + (1 + np.abs(np.log(ww)) + ww) / b * 3
                      + (a + np.abs(ww)) / np.tanh(ww) / b)
    if cls == "Manly":
        lam, xmax = tc.getp(t, "lam"), tc.getp(t, "xmax")
        if lam == 0:
            return eps * np.abs(y) * 2
        return eps * (np.abs(y) + (1 + np.exp(lam * x / xmax)
                                   * (1 + np.abs(lam * x / xmax)))
                      / abs(lam))
    if cls == "Logit":
        lower, delta = tc.getp(t, "lower"), math.exp(tc.getp(t, "logdelta"))
        v = (x - lower) / delta
        return eps * (np.abs(y) + (1 + (abs(lower) + np.abs(x)) / delta)
                      / (v * (1 - v)) * 2)
    raise KeyError(cls)


def derivative_check(t, case, setting, labels):
    cls = case["cls"]
    pts = tc.points(t, case, setting, manly_low=-600.)
    labels.extend(pts["lab"])
    x = pts["x"]
    if cls == "YeoJohnson":
        pts["scale"] = tc.getp(t, "scale")
    if cls == "Softmax":
        return softmax_check(t, x)
    h = tc.pow2(pts["loc"] * 1e-3)
    ok = fd_mask(cls, case, pts, h) & (h > 0)
    # the stencil nodes x +- h, x +- 2h must be (nearly) representable: when
    # the step is within 2^20 units in the last place of x the nodes are
    # rounded by up to 1e-6 of the step and the quotient measures that
    # rounding, not the derivative (x just below a power of two with
    # x - nu tiny; see DESIGN 7.3)
    ok = ok & (h >= 2.0**20 * np.spacing(np.abs(x) + 2 * h))
    # jacobian positive and finite on the whole domain
    j_all = np.asarray(t.jacobian(x.copy()), dtype=np.float64)
    if j_all.shape != x.shape:
        raise Violation(f"jacobian shape {j_all.shape} != {x.shape}")
    if cls == "Log" and t.basefactor < 0:
        # base < 1: decreasing logarithm (see DESIGN, C02): derivative only
        labels.append("log-base<1:derivative-only")
    elif not np.all(np.isfinite(j_all) & (j_all > 0)):
        i = int(np.argmin(np.isfinite(j_all) & (j_all > 0)))
        raise Violation(f"jacobian not positive/finite at x={x[i]!r}: "
                        f"{j_all[i]!r} params={t.params.values}")
    # the same points as a 2-D array (a row, a column, two rows mixing the
    # branches): element by element the same Jacobian and forward values
    if cls not in ("Softmax",) and len(x) >= 1:
        shapes = [(1, len(x)), (len(x), 1)]
        if len(x) % 2 == 0 and len(x) >= 4:
            shapes.append((2, len(x) // 2))
        f_all = np.asarray(t.forward(x.copy()), dtype=np.float64)
        for shp in shapes:
            x2 = x.reshape(shp).copy()
            j2 = np.asarray(t.jacobian(x2), dtype=np.float64)
            f2 = np.asarray(t.forward(x2), dtype=np.float64)
            if j2.shape != shp or not np.allclose(j2.ravel(), j_all,
                                                  rtol=1e-12, atol=0,
                                                  equal_nan=True):
                raise Violation(
                    f"jacobian of the points given as an array of shape "
                    f"{shp} differs from the 1-D call: {j2.ravel()[:4]} vs "
                    f"{j_all[:4]} at {x[:4]} params={t.params.values}")
            if f2.shape != shp or not np.allclose(f2.ravel(), f_all,
                                                  rtol=1e-12, atol=0,
                                                  equal_nan=True):
                raise Violation(f"forward of the points given as an array "
                                f"of shape {shp} differs from the 1-D call")
        labels.append("2-D-input")
    # uncommon but legitimate ways of passing the points: a list of floats,
    # and whole numbers given as Python ints (when they are in the domain)
    if cls not in ("Softmax",):
        jl = np.asarray(t.jacobian([float(v) for v in x]), dtype=np.float64)
        if not np.allclose(jl, j_all, rtol=1e-12, atol=0, equal_nan=True):
            raise Violation(f"jacobian(list of floats) {jl[:3]} differs "
                            f"from jacobian(array) {j_all[:3]}")
        ints = [k for k in (1, 2, 3, 5, 10) if np.all(np.isfinite(
            np.asarray(t.forward(np.array([k - 0.5, k + 0.5])))))]
        ji = None
        if ints and cls != "YeoJohnson":
            try:
                # (integer input is refused by some classes - the result is
                # never cast down silently; only judged when it is accepted)
                ji = np.asarray(t.jacobian(list(ints)), dtype=np.float64)
            except Exception:
                labels.append("int-list:refused")
        if ji is not None:
            jf = np.asarray(t.jacobian(np.array(ints, dtype=np.float64)),
                            dtype=np.float64)
            if not np.allclose(ji, jf, rtol=1e-12, atol=0, equal_nan=True):
                raise Violation(
                    f"jacobian of whole numbers given as Python ints "
                    f"{ints} = {ji.tolist()}, as floats {jf.tolist()} "
                    f"params={dict(zip(t.params.names, t.params.values))}")
    if not ok.any():
        return False, pts, None
    xs, hs = x[ok], h[ok]
    j = j_all[ok]
    jn = fd5(lambda v: np.asarray(t.forward(v), dtype=np.float64), xs, hs)
    err = np.abs(j - jn) / np.abs(jn)
    if not np.all(err <= JTOL):
        i = int(np.nanargmax(np.where(np.isnan(err), np.inf, err)))
        raise Violation(
            f"jacobian {j[i]!r} != finite difference {jn[i]!r} at "
            f"x={xs[i]!r} (h={hs[i]!r}, rel.err={err[i]:.3e}) "
            f"params={dict(zip(t.params.names, t.params.values))} "
            f"constants={dict(zip(t.constants.names, t.constants.values))}")
    ident = bool(np.any(np.abs(j - 1) > 1e-3))
    return ident, pts, None


def softmax_check(t, x):
    nrow, k = x.shape
    jac = t.jacobian(x.copy())
    jac = np.asarray(jac, dtype=np.float64).reshape(-1)
    if len(jac) != nrow:
        raise Violation(f"Softmax jacobian shape {jac.shape}")
    for i in range(nrow):
        xi = x[i]
        J = np.zeros((k, k))
        for c in range(k):
            h = float(tc.pow2(min(xi[c], 1 - xi.sum()) * 1e-3))
            e = np.zeros(k)
            e[c] = h

            def f(s):
                return t.forward((xi + s * e)[None, :])[0]
            J[:, c] = (-f(2) + 8 * f(1) - 8 * f(-1) + f(-2)) / (12 * h)
        det = np.linalg.det(J)
        if not (np.isfinite(jac[i]) and jac[i] > 0):
            raise Violation(f"Softmax jacobian not positive: {jac[i]!r}")
        if abs(det - jac[i]) > JTOL * abs(det):
            raise Violation(f"Softmax jacobian {jac[i]!r} != determinant of "
                            f"finite-difference matrix {det!r} at {xi}")
    return True, None, None


def monotone_check(t, case, setting, k, labels):
    """Pairs (x, x*(1+2^-k)) built in the transformed variable."""
    cls = case["cls"]
    if cls == "Softmax":
        return
    if cls == "Log" and t.basefactor < 0:
        return
    pts = tc.points(t, case, setting)
    x = pts["x"]
    rel = 2.0 ** -k
    # second point of each pair: move by rel * local scale
    x2 = x + pts["loc"] * rel
    allx = np.unique(np.concatenate([x, x2]))
    if cls == "BoxCox2sym":
        # through the centre of symmetry: 0 and points on both sides of it,
        # from 1e-4 down to 1e-14 of the shift
        nu_ = tc.getp(t, "nu")
        hs = nu_ * 10.0 ** -np.array([4., 8., 10., 12., 14.])
        allx = np.unique(np.concatenate([allx, [0.], hs, -hs]))
        labels.append("pairs:through-zero")
    # keep the points in the domain
    if cls in ("Log", "BoxCox2", "BoxCox1lam", "BoxCox1nu", "Reciprocal"):
        nu = tc.getp(t, "nu")
        if cls == "Reciprocal":
            allx = allx[(allx + nu > 1e-9)
                        & (allx + nu < 0.999 / pts["mininu"])]
        else:
            allx = allx[allx + nu > pts["mininu"] * 1.001]
    if cls == "Logit":
        lo, up = pts["lower"], pts["upper"]
        allx = allx[(allx > lo + (up - lo) * 1e-9 + 2 * EPS)
                    & (allx < up - (up - lo) * 1e-9 - 2 * EPS)]
    if cls == "LogSinh":
        a, b = math.exp(tc.getp(t, "loga")), math.exp(tc.getp(t, "logb"))
        xmax = tc.getp(t, "xmax")
        allx = allx[a + b * allx / xmax >= 1e-4]
    if len(allx) < 2:
        return
    y = np.asarray(t.forward(allx.copy()), dtype=np.float64)
    if not np.all(np.isfinite(y)):
        raise Violation(f"forward not finite on domain points {allx}")
    noise = noise_model(cls, t, case, allx, y)
    jac = np.asarray(t.jacobian(allx.copy()), dtype=np.float64)
    d = np.diff(y)
    nz = np.maximum(noise[:-1], noise[1:])
    bad = d < -8 * nz
    if bad.any():
        i = int(np.argmax(bad))
        raise Violation(
            f"forward decreases: x1={allx[i]!r} < x2={allx[i+1]!r} but "
            f"f(x2)-f(x1)={d[i]!r} (noise model {nz[i]:.3e}) "
            f"params={dict(zip(t.params.names, t.params.values))}")
    grow = np.minimum(jac[:-1], jac[1:]) * np.diff(allx)
    must = grow > 64 * nz
    if np.any(must & ~(d > 0)):
        i = int(np.argmax(must & ~(d > 0)))
        raise Violation(
            f"forward not strictly increasing: x1={allx[i]!r} x2={allx[i+1]!r}"
            f" f(x2)-f(x1)={d[i]!r}, jacobian*dx={grow[i]:.3e} >> noise "
            f"{nz[i]:.3e}")
    labels.append(f"pairs:2^-{(k // 9) * 9}..")
    if np.any(d == 0):
        labels.append("pairs:equal-within-rounding")


def make_oracle(cls):
    def oracle(case):
        labels = [f"via:{case['via']}"]
        t = tc.make(case)
        nt = False
        nskip = 0
        for i, setting in enumerate(case["settings"]):
            if i > 0:
                tc.apply(t, setting["p"], case.get("how", "by-name"))
            try:
                ident, pts, _ = derivative_check(t, case, setting, labels)
                monotone_check(t, case, setting, case["k"][i], labels)
            except Skip:
                nskip += 1
                continue
            if ident and not tc.is_default(t):
                nt = True
        if nskip == len(case["settings"]):
            raise Skip()
        return {"nt": nt or cls == "Softmax", "labels": sorted(set(labels))}
    return oracle


@st.composite
def cases(draw, cls):
    c = draw(tc.transform_case(cls, nmin=1, nmax=12))
    c["k"] = [draw(st.integers(0, 44)) for _ in c["settings"]]
    return c


SUBS = [
    Sub(f"C02.jacobian+monotone.{cls}", make_oracle(cls),
        strategy=(lambda tier, cls=cls: cases(cls)),
        n=(1000, 20000) if cls not in ("Identity",) else (50, 500),
        shards=(1, 1))
    for cls in tc.CLASSES
]


# ------------------------------------------------ Logit far from the origin
# When |lower| is more than ~1e7 times the interval width, x - lower is too
# coarse for finite differences (the generated cases skip that region).  The
# interval [lower, upper] is still well defined - upper is the float
# lower + exp(logdelta) - and for floats inside it x - lower and upper - lower
# are exact, so forward(x) = logit(v), v = (x - lower)/(upper - lower), has the
# closed-form derivative 1/((upper - lower) v (1 - v)).  Both are compared:
# forward with the closed form, the Jacobian with its derivative.
def logit_far_enum(tier):
    lowers = [1e9, -1e13, 3e11, 1e6, 2.0**40 + 1. / 3, -7e15, 1e3, 0.]
    lds = [-10., -5.5, -1., 0., 2., 0.1, 5.]
    for lo in lowers:
        for ld in lds:
            yield {"lower": lo, "logdelta": ld}


def logit_far_oracle(case):
    lo, ld = case["lower"], case["logdelta"]
    t = T.Logit()
    t.lower = lo
    t.logdelta = ld
    # (values as the transform holds them, should it clip them)
    lo, ld = float(t.lower), float(t.logdelta)
    up = lo + math.exp(ld)
    w = up - lo
    if not w > 0:
        raise Skip()
    xs = np.unique(lo + w * np.array([0.05, 0.1, 0.2, 0.35, 0.5, 0.65, 0.8,
                                      0.9, 0.95]))
    xs = xs[(xs > lo) & (xs < up)]
    v = (xs - lo) / w
    ok = (v > 1e-3) & (v < 1 - 1e-3) & (xs - lo > 1e-9) & (up - xs > 1e-9)
    if not ok.any():
        return {"nt": False, "labels": ["no-interior-float"]}
    xs, v = xs[ok], v[ok]
    f = np.asarray(t.forward(xs.copy()), dtype=np.float64)
    j = np.asarray(t.jacobian(xs.copy()), dtype=np.float64)
    fref = np.log(v / (1 - v))
    jref = 1. / (w * v * (1 - v))
    if not np.all(np.abs(f - fref) <= 1e-9 * (1 + np.abs(fref))):
        i = int(np.argmax(np.abs(f - fref)))
        raise Violation(f"Logit(lower={lo!r}, logdelta={ld!r}).forward("
                        f"{xs[i]!r}) = {f[i]!r}, logit of the position in "
                        f"[lower, upper] = {fref[i]!r}")
    if not np.all(np.abs(j - jref) <= 1e-9 * jref):
        i = int(np.argmax(np.abs(j - jref) / jref))
        raise Violation(
            f"Logit(lower={lo!r}, logdelta={ld!r}).jacobian({xs[i]!r}) = "
            f"{j[i]!r}; forward is the logit of v = (x - lower)/(upper - "
            f"lower) = {v[i]!r} (checked), whose derivative is {jref[i]!r} "
            f"(rel.err {abs(j[i] - jref[i]) / jref[i]:.2e})")
    far = abs(lo) > 1e7 * w
    return {"nt": True, "labels": ["offset:" + ("far" if far else "near")]}


SUBS.append(Sub("C02.logit-far-from-origin", logit_far_oracle,
                enumerate=logit_far_enum, shards=(4, 4)))
