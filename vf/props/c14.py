"""C14 - variable to fixed time step conversion is the exact period average."""
import math

import numpy as np
import pandas as pd
from hypothesis import strategies as st

from vf.core import Sub, Violation, Skip
from hydrodiy.data import dutils

PROPERTY = "C14"
RULE = ("(long-series sub-check: 2e4 .. 1e6 irregular stamps over months to "
        "decades against a cumulative-integral evaluation of the same "
        "definition.) " +
        "Hypothesis-generated irregular series: 2..60 observations (thorough "
        "up to 2000), first stamp = a midnight + 0..7199 s, spacings from "
        "three regimes (uniform 1..4000 s; {0,600,900,1800,3600,5400} s with "
        "duplicates and stamps on period boundaries; {1,59,600,3600,20000} s "
        "with long gaps), values U(0,10) with NaN and negative entries, "
        "period 1800/3600 s, rainfall flag, maxgapsec in {3600, 7200, "
        "432000}, index unit s/ms/us/ns, naive / UTC / fixed-offset / "
        "Australia/Brisbane (after 1994) / Asia/Tokyo (DST-free) time zones. Oracle: exact reference "
        "on integer seconds - trapezoid of the linear interpolant clipped to "
        "each period (rainfall: prorated sum); periods overlapped by an "
        "invalid interval or not fully covered must be missing, others must "
        "equal the reference to 1e-9; first output stamp, index step, same "
        "result across index units and time zones, conservation of the "
        "integral. Non-trivial = a period overlapped by >= 2 intervals with a "
        "partial overlap, or a stamp exactly on a boundary, or unit != ns.")

UNITS = ["s", "ms", "us", "ns"]
ZONES = [None, "UTC", "+05:30", "Australia/Brisbane"]


@st.composite
def cases(draw, tier):
    big = tier == "thorough" and draw(st.integers(0, 19)) == 0
    n = draw(st.integers(2, 2000 if big else 60))
    if not big and draw(st.integers(0, 14)) == 0:
        # record lengths at and around powers of two
        n = draw(st.sampled_from([127, 128, 129, 255, 256, 257]))
    regime = draw(st.sampled_from(["uniform", "lattice", "gaps", "regular"]))
    if regime == "regular":
        # constant step (the index is then built with pandas.date_range and
        # carries a freq), stamps anywhere relative to the period boundaries
        steps = [draw(st.sampled_from([60, 120, 300, 360, 600, 900, 1200,
                                       1800, 3600, 5400, 420]))] * (n - 1)
    elif regime == "uniform":
        steps = [draw(st.integers(1, 4000)) for _ in range(n - 1)]
    elif regime == "lattice":
        steps = [draw(st.sampled_from([0, 600, 900, 1800, 3600, 5400]))
                 for _ in range(n - 1)]
    else:
        steps = [draw(st.sampled_from([1, 59, 600, 3600, 20000]))
                 for _ in range(n - 1)]
    vals = []
    for _ in range(n):
        k = draw(st.integers(0, 19))
        if k == 0:
            vals.append(float("nan"))
        elif k == 1:
            vals.append(-1.0)
        else:
            vals.append(draw(st.floats(0., 10., allow_nan=False)))
    # first day: 1970-2024 mostly, else anywhere in the range a nanosecond
    # index can hold (1682 .. 2257: historical records, projections)
    return {"day": draw(st.one_of(st.integers(0, 20000), st.integers(0, 20000),
                                  st.integers(-105000, 105000),
                                  st.sampled_from([-53000, 53400, 53500,
                                                   -53400, 104000, -104000]))),
            "offset": draw(st.one_of(st.integers(0, 7199),
                                     st.sampled_from([0, 1800, 3600, 3599]))),
            "steps": steps, "vals": vals,
            "P": draw(st.sampled_from([1800, 3600])),
            "rainfall": draw(st.booleans()),
            "maxgap": draw(st.sampled_from([3600, 7200, 432000])),
            "unit": draw(st.sampled_from(UNITS)),
            "zone": draw(st.sampled_from(ZONES)),
            "display": draw(st.sampled_from([False, False, True])),
            "ptz": draw(st.integers(0, 5)),
            "regime": regime}


def reference(ts, vs, hstart, P, nper, rainfall, maxgap):
    """For each period: (expected value, must be missing, may be missing,
    number of overlapping intervals, partial overlap seen)."""
    out = []
    n = len(ts)
    for i in range(nper):
        s = hstart + i * P
        e = s + P
        tot = 0.0
        must = may = False
        covered = 0
        nov = 0
        partial = False
        for k in range(n - 1):
            t1, t2 = ts[k], ts[k + 1]
            if t2 < s or t1 > e:
                continue
            lo, hi = max(t1, s), min(t2, e)
            invalid = (vs[k] < 0 or vs[k + 1] < 0 or math.isnan(vs[k])
                       or math.isnan(vs[k + 1]) or (t2 - t1 > maxgap))
            if hi > lo:
                covered += hi - lo
                nov += 1
                if hi - lo < t2 - t1:
                    partial = True
                if invalid:
                    must = True
                elif rainfall:
                    tot += vs[k + 1] * (hi - lo) / (t2 - t1)
                else:
                    a = (vs[k + 1] - vs[k]) / (t2 - t1)
                    v1 = vs[k] + a * (lo - t1)
                    v2 = vs[k] + a * (hi - t1)
                    tot += (v1 + v2) / 2 * (hi - lo)
            elif invalid:
                may = True       # touching / zero-length interval
        if covered < P:
            must = True
        out.append((tot if rainfall else tot / P, must, may, nov, partial))
    return out


def make_index(t0, secs, unit, zone, regular=False):
    if regular and len(secs) > 1:
        idx = pd.date_range(t0, periods=len(secs),
                            freq=f"{int(secs[1] - secs[0])}s").as_unit(unit)
        assert idx.freq is not None
    else:
        idx = pd.DatetimeIndex([t0 + pd.Timedelta(seconds=int(s))
                                for s in secs]).as_unit(unit)
    if zone == "Australia/Brisbane" and t0 < pd.Timestamp("1994-01-01"):
        # Queensland observed daylight saving in 1971-72 and 1989-92: a
        # DST change inside the series is outside the stated domain
        # (Japan observed it in 1948-51 and used local mean time before
        # 1888: a fixed offset there)
        zone = "Asia/Tokyo" if t0 >= pd.Timestamp("1952-01-01") else "+10:00"
    if zone is not None:
        idx = idx.tz_localize(zone)
    return idx


PROCESS_TZ = [None, "UTC", "EST5", "AEST-10", "CET-1CEST,M3.5.0,M10.5.0/3",
              "NST3:30"]


def oracle(case):
    """The process runs in some local time zone (POSIX TZ strings: no tz
    database needed); the conversion works on the stamps of the index and is
    blind to it."""
    import os
    import time
    old = os.environ.get("TZ")
    ptz = PROCESS_TZ[case.get("ptz", 0) % len(PROCESS_TZ)]
    try:
        if ptz is not None:
            os.environ["TZ"] = ptz
            time.tzset()
        res = _oracle(case)
        res["labels"] = sorted(set(res["labels"]) | {f"process-tz:{ptz}"})
        return res
    finally:
        if old is None:
            os.environ.pop("TZ", None)
        else:
            os.environ["TZ"] = old
        time.tzset()


def _oracle(case):
    P, rainfall, maxgap = case["P"], case["rainfall"], case["maxgap"]
    secs = np.concatenate([[0], np.cumsum(case["steps"])]).astype(np.int64)
    if secs[-1] < 2 * P:
        raise Skip()
    vals = np.array(case["vals"], dtype=np.float64)
    t0 = pd.Timestamp("1970-01-01") + pd.Timedelta(days=case["day"]) \
        + pd.Timedelta(seconds=case["offset"])
    idx = make_index(t0, secs, case["unit"], case["zone"],
                     regular=case["regime"] == "regular")
    se = pd.Series(vals, index=idx)
    r = dutils.var2h(se, nbsec_per_period=P, maxgapsec=maxgap,
                     rainfall=rainfall, display=case.get("display", False))
    labels = [f"unit:{case['unit']}", f"zone:{case['zone']}",
              f"regime:{case['regime']}", f"P:{P}",
              f"rainfall:{rainfall}"]
    if not 0 <= case["day"] <= 20000:
        labels.append("first-day:" + ("before-1824-or-after-2116"
                                      if abs(case["day"]) > 53300
                                      else "outside-1970..2024"))
    ts = [int((t0 - pd.Timestamp("1970-01-01")).total_seconds()) + int(s)
          for s in secs]
    h0 = pd.Timestamp(t0.year, t0.month, t0.day, t0.hour) \
        + pd.Timedelta(hours=1)
    hstart = int((h0 - pd.Timestamp("1970-01-01")).total_seconds())
    nper = int((ts[-1] - ts[0]) / P)
    if len(r) != nper:
        raise Violation(f"{len(r)} periods returned, expected {nper}")
    if nper == 0:
        raise Skip()
    if r.index[0] != h0:
        raise Violation(f"first output stamp {r.index[0]} != first whole "
                        f"hour after the first observation {h0}")
    if nper > 1:
        d = np.diff(r.index.values).astype("timedelta64[s]").astype(int)
        if not np.all(d == P):
            raise Violation("output index is not regular")
    exp = reference(ts, vals, hstart, P, nper, rainfall, maxgap)
    nt = case["unit"] != "ns"
    valid_sum = 0.0
    ref_sum = 0.0
    for i, (v, (ev, must, may, nov, partial)) in enumerate(zip(r.values,
                                                               exp)):
        if i == nper - 1:
            continue
        if must:
            if not np.isnan(v):
                raise Violation(
                    f"period {i} [{hstart + i * P}, {hstart + (i + 1) * P}) "
                    f"overlaps an invalid interval or is not fully covered "
                    f"but var2h returns {v!r} (P={P}, rainfall={rainfall}, "
                    f"maxgap={maxgap})")
            labels.append("period:missing")
        elif np.isnan(v):
            if not may:
                raise Violation(
                    f"period {i} is fully covered by valid data but var2h "
                    f"returns NaN (P={P}, rainfall={rainfall}, "
                    f"unit={case['unit']})")
        else:
            if not abs(v - ev) <= 1e-9 * max(1., abs(ev)):
                raise Violation(
                    f"period {i}: var2h {v!r}, exact period "
                    f"{'sum' if rainfall else 'average'} {ev!r} (P={P}, "
                    f"rainfall={rainfall}, unit={case['unit']})")
            valid_sum += v * (1 if rainfall else P)
            ref_sum += ev * (1 if rainfall else P)
            if nov >= 2 and partial:
                nt = True
                labels.append("period:multi-interval-partial")
    if not abs(valid_sum - ref_sum) <= 1e-9 * max(1., abs(ref_sum)):
        raise Violation("integral over the non-missing periods not "
                        "conserved")
    if any((t - hstart) % P == 0 for t in ts[1:-1]):
        nt = True
        labels.append("stamp-on-boundary")

    # the same series object edited in place, then converted again
    v3 = np.where(np.isnan(vals), np.nan, np.abs(vals) * 0.5 + 1.0)
    se.iloc[:] = v3
    r3 = dutils.var2h(se, nbsec_per_period=P, maxgapsec=maxgap,
                      rainfall=rainfall)
    exp3 = reference(ts, v3, hstart, P, nper, rainfall, maxgap)
    for i, (v, (ev, must, may, nov, partial)) in enumerate(zip(r3.values,
                                                               exp3)):
        if i == nper - 1 or must or np.isnan(v):
            continue
        if not abs(v - ev) <= 1e-9 * max(1., abs(ev)):
            raise Violation(f"var2h called again after the series values "
                            f"were edited in place: period {i} {v!r}, "
                            f"expected {ev!r}")
    se.iloc[:] = vals
    # same wall-clock stamps in another unit / zone give the same result
    alt_unit = UNITS[(UNITS.index(case["unit"]) + 1) % 4]
    alt_zone = ZONES[(ZONES.index(case["zone"]) + 1) % 4]
    # (always built stamp by stamp: no freq attribute)
    se2 = pd.Series(vals, index=make_index(t0, secs, alt_unit, alt_zone))
    r2 = dutils.var2h(se2, nbsec_per_period=P, maxgapsec=maxgap,
                      rainfall=rainfall)
    if len(r2) != len(r) or not np.array_equal(r2.values, r.values,
                                               equal_nan=True) \
            or not np.array_equal(r2.index.values.astype("datetime64[s]"),
                                  r.index.values.astype("datetime64[s]")):
        raise Violation(f"result differs between index unit/zone "
                        f"({case['unit']}, {case['zone']}) and "
                        f"({alt_unit}, {alt_zone})")
    return {"nt": nt, "labels": sorted(set(labels))}


# ---------------------------------------------------------- long series
def enum_long(tier):
    sizes = [20000] if tier == "quick" else [20000, 200000, 1000000]
    for n in sizes:
        for k, (P, rainfall) in enumerate([(3600, False), (1800, True),
                                           (1800, False), (3600, True)]):
            yield {"n": n, "P": P, "rainfall": rainfall, "seed": n + k,
                   "year": [1975, 2001, 2030, 1999][k],
                   "unit": UNITS[k % 4]}
    # roughly daily observations over more than 2^31 seconds (69 / 140
    # years): period starts beyond the range of a 32-bit count of seconds
    yield {"n": 25500, "P": 3600, "rainfall": False, "seed": 77,
           "year": 1950, "unit": "s", "steps": "daily"}
    if tier == "thorough":
        yield {"n": 25500, "P": 1800, "rainfall": True, "seed": 78,
               "year": 1901, "unit": "us", "steps": "daily"}
        yield {"n": 51000, "P": 3600, "rainfall": True, "seed": 79,
               "year": 1880, "unit": "ms", "steps": "daily"}


def long_oracle(case):
    """Months to decades of irregular data against a vectorised evaluation
    of the same definition (cumulative integral at the period ends)."""
    n, P, rainfall = case["n"], case["P"], case["rainfall"]
    rng = np.random.RandomState(case["seed"])
    if case.get("steps") == "daily":
        steps = rng.choice([43200, 86400, 129600, 600000], size=n - 1,
                           p=[.2, .6, .19, .01])
    else:
        steps = rng.choice([60, 360, 600, 900, 1800, 2700, 3600, 5400,
                            40000], size=n - 1,
                           p=[.2, .3, .2, .1, .1, .04, .03, .02, .01])
    secs = np.concatenate([[0], np.cumsum(steps)]).astype(np.int64)
    vals = np.round(rng.gamma(2., 2., size=n), 3)
    vals[rng.uniform(size=n) < 0.002] = np.nan
    vals[rng.uniform(size=n) < 0.002] = -1.0
    maxgap = 432000 if case.get("steps") == "daily" else 7200
    t0 = pd.Timestamp(year=case["year"], month=3, day=7, hour=5, minute=13)
    idx = pd.DatetimeIndex(t0.value + secs * 10**9).as_unit(case["unit"])
    se = pd.Series(vals, index=idx)
    r = dutils.var2h(se, nbsec_per_period=P, maxgapsec=maxgap,
                     rainfall=rainfall)
    ts = t0.value // 10**9 + secs
    h0 = pd.Timestamp(t0.year, t0.month, t0.day, t0.hour) \
        + pd.Timedelta(hours=1)
    hstart = h0.value // 10**9
    nper = int((ts[-1] - ts[0]) / P)
    if len(r) != nper or r.index[0] != h0 or \
            r.index[-1] != h0 + pd.Timedelta(seconds=P * (nper - 1)):
        raise Violation(f"{len(r)} periods from {r.index[0]} to "
                        f"{r.index[-1]}, expected {nper} from {h0}")
    dt = np.diff(ts).astype(np.float64)
    v1, v2 = vals[:-1], vals[1:]
    invalid = np.isnan(v1) | np.isnan(v2) | (v1 < 0) | (v2 < 0) | \
        (dt > maxgap)
    w1, w2 = np.where(invalid, 0., v1), np.where(invalid, 0., v2)
    seg = w2 * 1.0 if rainfall else (w1 + w2) / 2 * dt
    I = np.concatenate([[0.], np.cumsum(seg)])
    J = np.concatenate([[0.], np.cumsum(np.where(invalid, dt, 0.))])

    def at(t, cum, inside):
        k = np.clip(np.searchsorted(ts, t, side="right") - 1, 0, n - 2)
        return cum[k] + inside(k, (t - ts[k]).astype(np.float64))

    def in_I(k, d):
        if rainfall:
            return w2[k] * d / dt[k]
        a = (w2[k] - w1[k]) / dt[k]
        return w1[k] * d + a * d * d / 2

    def in_J(k, d):
        return np.where(invalid[k], d, 0.)

    s_ = hstart + P * np.arange(nper, dtype=np.int64)
    e_ = s_ + P
    tot = at(e_, I, in_I) - at(s_, I, in_I)
    bad = at(e_, J, in_J) - at(s_, J, in_J)
    near = at(e_ + 1, J, in_J) - at(s_ - 1, J, in_J)
    exp = tot if rainfall else tot / P
    got = r.values
    must = (bad > 0) | (e_ > ts[-1])
    judged = ~must & (near == 0)
    judged[-1] = False
    must[-1] = False
    if np.any(must & ~np.isnan(got)):
        i = int(np.argmax(must & ~np.isnan(got)))
        raise Violation(f"n={n}: period {i} overlaps invalid data but "
                        f"var2h returns {got[i]!r}")
    if np.any(judged & np.isnan(got)):
        i = int(np.argmax(judged & np.isnan(got)))
        raise Violation(f"n={n}: period {i} (of {nper}) is covered by valid "
                        f"data but var2h returns NaN (P={P}, "
                        f"rainfall={rainfall})")
    # cumulative sums of ~n terms: rounding of the reference itself
    tol = 1e-9 * np.maximum(1., np.abs(exp)) + 4e-16 * I[-1] / \
        (1 if rainfall else P) * 8
    err = np.abs(got - exp)
    if np.any(judged & ~(err <= tol)):
        i = int(np.argmax(judged & ~(err <= tol)))
        raise Violation(f"n={n}: period {i} (of {nper}): var2h {got[i]!r}, "
                        f"exact period {'sum' if rainfall else 'average'} "
                        f"{exp[i]!r} (P={P}, rainfall={rainfall}, "
                        f"unit={case['unit']})")
    return {"nt": True, "labels": [f"n:{n}",
                                   "span>2^31s" if P * nper > 2**31
                                   else "span<=2^31s", f"periods-judged:"
                                   f"{'>1e4' if judged.sum() > 1e4 else '<=1e4'}"]}


SUBS = [
    Sub("C14.long-series", long_oracle, enumerate=enum_long, shards=(4, 12)),
    Sub("C14.period-average", oracle, strategy=cases, n=(600, 8000),
        shards=(16, 16)),
]
