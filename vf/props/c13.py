"""C13 - grids and catchments survive save/load, dictionary export, cloning
and clipping."""
import json
import math
import os
import shutil
import tempfile
import zipfile
from pathlib import Path

import numpy as np
from hypothesis import strategies as st

from vf.core import Sub, Violation, Skip, OUT
from vf.props import gis_common as G
from hydrodiy.gis.grid import Grid, Catchment

PROPERTY = "C13"
RULE = ("Hypothesis-generated grids: shapes 1x1..8x8, cell size exp(U(-9,9)) "
        "or arbitrary 17-digit floats, origins N(0,1)*10^k (k=-3..6), dtypes "
        "int8..int64, uint8..uint64, float16/32/64, values over the full "
        "range of the type with the extremes forced in (NaN, +-inf, max, "
        "tiny, -0.0 for floats), no-data values representable in the type; "
        "loaders from_header / from_stream / from_zip; header byte order I "
        "(as written) and M (raster byte-swapped and BYTEORDER line edited); "
        "clip boxes with corners strictly inside cells or exactly on cell edges; catchments "
        "delineated on random acyclic flow grids with and without inlets. "
        "Oracle: exact equality (==) of nrows, ncols, cellsize, corners, "
        "dtype, no-data (NaN-aware), bit-identical data for save/load and "
        "clone; metadata for to_dict -> json -> from_dict; clone "
        "independence both ways; clip equals the parent's block and the "
        "parent's value at the coinciding cell centres; Catchment "
        "from_dict(to_dict()) keeps outlet, inlets, area, filled area. "
        "Non-trivial = dtype not float64, or no-data != 0, or byte order M, "
        "or |value| > 2^53 in a 64-bit integer grid, or a catchment with "
        "inlets.")

DTYPES = ["int8", "int16", "int32", "int64", "uint8", "uint16", "uint32",
          "uint64", "float16", "float32", "float64"]
unit = st.floats(0., 1., allow_nan=False)
sunit = st.floats(-1., 1., allow_nan=False)


@st.composite
def grid_case(draw, tier):
    nrows, ncols = draw(st.integers(1, 8)), draw(st.integers(1, 8))
    if draw(st.integers(0, 14)) == 0:
        # rasters of 255..257 cells (row and file buffers)
        nrows, ncols = draw(st.sampled_from([(1, 255), (1, 256), (1, 257),
                                             (16, 16), (17, 15), (128, 2),
                                             (2, 129), (257, 1)]))
    if draw(st.booleans()):
        csz = math.exp(18 * draw(unit) - 9)
    else:
        csz = draw(st.floats(1e-6, 1e6, allow_nan=False))
    xll = draw(sunit) * 3 * 10.0 ** draw(st.integers(-3, 6))
    yll = draw(sunit) * 3 * 10.0 ** draw(st.integers(-3, 6))
    dt = draw(st.sampled_from(DTYPES))
    n = nrows * ncols
    info = np.iinfo(dt) if not dt.startswith("float") else None
    if info is not None:
        ext = [info.min, info.max, 0, 1, info.max - 1, info.min + 1,
               info.max // 2 + 1]
        vals = [draw(st.one_of(st.sampled_from(ext),
                               st.integers(info.min, info.max)))
                for _ in range(n)]
        nodata = draw(st.sampled_from([0, 1, info.min, info.max,
                                       -9999 if info.min <= -9999 else 100,
                                       info.max - 1]))
    else:
        fi = np.finfo(dt)
        ext = [float("nan"), float("inf"), float("-inf"), float(fi.max),
               float(-fi.max), float(fi.tiny), -0.0, 0.0, 1.0,
               float(fi.eps)]
        vals = [draw(st.one_of(st.sampled_from(ext),
                               st.floats(-1e4, 1e4, allow_nan=False)))
                for _ in range(n)]
        nodata = draw(st.sampled_from([0., 1., float("nan"), -9999.,
                                       float(fi.max), float("inf"), -1.5]))
    return {"nrows": nrows, "ncols": ncols, "csz": csz, "xll": xll,
            "yll": yll, "dtype": dt, "vals": vals, "nodata": nodata,
            "loader": draw(st.sampled_from(["from_header", "from_stream",
                                            "from_zip", "from_header_bil"])),
            "byteorder": draw(st.sampled_from(["I", "I", "M"])),
            "stem": draw(st.sampled_from(["tg", "tg", "dem (1)", "flow+acc",
                                          "rain[2020]", "a.b", "DEM", "dem",
                                          "what?", "x$y", "{z}", "p|q",
                                          "a b", "tg.v2", "^top", "50%",
                                          "a*", "(x", "y]", "back\\slash",
                                          "d\u00e9m"])),
            "clip": [draw(unit) for _ in range(4)],
            # position of the box corners inside their cells; 0.0 = exactly
            # on the left / lower edge of the cell
            "clipmargin": [draw(st.one_of(st.floats(0.05, 0.95),
                                          st.sampled_from([0.0, 0.0, 0.5])))
                           for _ in range(4)],
            "poke": draw(st.integers(0, n - 1))}


def build_grid(case):
    dt = np.dtype(case["dtype"]).type
    g = Grid("tg", case["ncols"], case["nrows"], cellsize=case["csz"],
             xllcorner=case["xll"], yllcorner=case["yll"], dtype=dt,
             nodata=case["nodata"], comment="verif grid")
    with np.errstate(all="ignore"):
        arr = np.array(case["vals"], dtype=object if
                       case["dtype"] in ("uint64", "int64") else None)
        data = np.array([dt(v) for v in case["vals"]], dtype=dt).reshape(
            case["nrows"], case["ncols"])
    g.data = data
    return g, data


def same_value(a, b):
    if isinstance(a, (float, np.floating)) and np.isnan(a):
        return isinstance(b, (float, np.floating)) and bool(np.isnan(b))
    return a == b


def check_meta(a, b, what, check_dtype=True):
    for att in ("nrows", "ncols", "cellsize", "xllcorner", "yllcorner"):
        va, vb = getattr(a, att), getattr(b, att)
        if not va == vb:
            raise Violation(f"{what}: {att} {va!r} -> {vb!r}")
    if check_dtype:
        if np.dtype(a.dtype) != np.dtype(b.dtype):
            raise Violation(f"{what}: dtype {np.dtype(a.dtype)} -> "
                            f"{np.dtype(b.dtype)}")
        if not same_value(a.nodata, b.nodata):
            raise Violation(f"{what}: nodata {a.nodata!r} -> {b.nodata!r}")
        if type(b.nodata) is not b.dtype:
            raise Violation(f"{what}: nodata {b.nodata!r} is a "
                            f"{type(b.nodata).__name__}, grid dtype is "
                            f"{np.dtype(b.dtype)}")


def bits(arr):
    return np.ascontiguousarray(arr).view(np.uint8).tobytes()


def check_data(d0, d1, what):
    if d1.shape != d0.shape or d1.dtype != d0.dtype:
        raise Violation(f"{what}: data shape/dtype {d0.shape} {d0.dtype} -> "
                        f"{d1.shape} {d1.dtype}")
    if d0.dtype.kind == "f":
        # NaN payloads are not required to survive; everything else is
        nan0, nan1 = np.isnan(d0), np.isnan(d1)
        if not np.array_equal(nan0, nan1):
            raise Violation(f"{what}: NaN pattern changed")
        x0 = np.where(nan0, 0, d0)
        x1 = np.where(nan1, 0, d1)
        if bits(x0) != bits(x1):
            i = np.argwhere(~((x0 == x1) & (np.signbit(x0)
                                            == np.signbit(x1))))[0]
            raise Violation(f"{what}: value {d0[tuple(i)]!r} -> "
                            f"{d1[tuple(i)]!r} at {tuple(i)}")
    elif bits(d0) != bits(d1):
        i = np.argwhere(d0 != d1)[0]
        raise Violation(f"{what}: value {d0[tuple(i)]!r} -> "
                        f"{d1[tuple(i)]!r} at {tuple(i)} ({d0.dtype})")


def oracle(case):
    base = OUT / "tmp"
    base.mkdir(parents=True, exist_ok=True)
    tmp = Path(tempfile.mkdtemp(prefix=f"grid-{os.getpid()}-", dir=base))
    try:
        return run(case, tmp)
    finally:
        shutil.rmtree(tmp, ignore_errors=True)


def run(case, tmp):
    g, data = build_grid(case)
    labels = [f"dtype:{case['dtype']}", f"loader:{case['loader']}",
              f"byteorder:{case['byteorder']}"]
    dt = np.dtype(case["dtype"])
    # the setter stores what it was given
    check_data(data, g.data, "data setter")

    # ---- save / load
    # file names as users write them (spaces, brackets, signs, several dots,
    # capitals), next to other grids whose names differ by case or by one
    # character
    stem = case.get("stem", "tg")
    fbil = tmp / f"{stem}.bil"
    fhdr = tmp / f"{stem}.hdr"
    if stem != "tg":
        decoy = Grid("decoy", 2, 3, dtype=np.float32, nodata=-1.,
                     cellsize=7., xllcorner=-1., yllcorner=-2.)
        decoy.data = np.arange(6, dtype=np.float32).reshape(3, 2) + 50
        for nm in {stem.upper(), stem.lower(), stem.replace(".", "-"),
                   "x" + stem, stem + "x"} - {stem}:
            decoy.save(tmp / f"{nm}.bil")
        labels.append("file-name:" + ("plain" if stem.isalnum()
                                      else "with-special-characters"))
    g.save(fbil)
    if case["byteorder"] == "M":
        # what a big-endian producer would have written
        raw = np.fromfile(fbil, dtype=dt)
        raw.astype(dt.newbyteorder(">")).tofile(fbil)
        txt = fhdr.read_text()
        lines = [("BYTEORDER      M" if ln.upper().startswith("BYTEORDER")
                  else ln) for ln in txt.splitlines()]
        fhdr.write_text("\n".join(lines) + "\n")
    loader = case["loader"]
    if loader == "from_header":
        g2 = Grid.from_header(fhdr)
    elif loader == "from_header_bil":
        g2 = Grid.from_header(fbil)
    elif loader == "from_stream":
        with open(fhdr, "r") as fh, open(fbil, "rb") as fd:
            g2 = Grid.from_stream(fh, fd)
    else:
        # the archive also holds another grid, stored first, whose member
        # names end with / contain the requested ones
        other = Grid("other", 2, 3, dtype=np.float32, nodata=-1.,
                     cellsize=7., xllcorner=-1., yllcorner=-2.)
        other.data = np.arange(6, dtype=np.float32).reshape(3, 2)
        fo = tmp / "other.bil"
        other.save(fo)
        fz = tmp / "arch.zip"
        with zipfile.ZipFile(fz, "w") as z:
            z.write(fo.with_suffix(".hdr"), "old_sub/tg.hdr")
            z.write(fo, "old_sub/tg.bil")
            z.write(fo.with_suffix(".hdr"), "filled_sub/tg.hdr")
            z.write(fo, "filled_sub/tg.bil")
            z.write(fhdr, "sub/tg.hdr")
            z.write(fbil, "sub/tg.bil")
            z.write(fo.with_suffix(".hdr"), "sub/tg.hdr.bak")
        g2 = Grid.from_zip(fz, "sub/tg.hdr")
    check_meta(g, g2, f"save/{loader}")
    check_data(data, g2.data, f"save/{loader} (byte order "
               f"{case['byteorder']})")

    # ---- the grid edited and saved again under the same name
    p0 = case["poke"]
    old = data.flat[p0]
    g[p0] = dt.type(1) if old != 1 else dt.type(0)
    g.save(fbil)
    g4 = Grid.from_header(fhdr)
    check_data(np.asarray(g.data), g4.data, "second save to the same files")
    g[p0] = old

    # ---- dictionary
    # (numpy scalars in the dictionary are converted the usual way)
    d = json.loads(json.dumps(g.to_dict(), default=lambda o: o.item()
                              if hasattr(o, "item") else str(o)))
    g3 = Grid.from_dict(d)
    check_meta(g, g3, "to_dict/json/from_dict")
    g3b = Grid.from_dict(g.to_dict())
    check_meta(g, g3b, "to_dict/from_dict")

    # ---- clone
    c = g.clone()
    check_meta(g, c, "clone")
    check_data(data, c.data, "clone")
    if c.data is g.data or np.shares_memory(c.data, g.data):
        raise Violation("clone shares its data with the original")
    p = case["poke"]
    other = data.flat[p]
    newv = dt.type(1) if other != 1 else dt.type(0)
    c[p] = newv
    check_data(data, g.data, "writing into the clone changed the original")
    c2 = g.clone()
    g[p] = newv
    if bits(c2.data) != bits(data) and not (
            dt.kind == "f" and np.array_equal(np.isnan(c2.data),
                                              np.isnan(data))):
        raise Violation("writing into the original changed its clone")
    g[p] = other
    c2.cellsize = c2.cellsize * 2
    if g.cellsize != case["csz"]:
        raise Violation("clone shares georeferencing with the original")

    # ---- clone with a dtype argument (own dtype: must still be a copy)
    c3 = g.clone(dt.type)
    check_meta(g, c3, "clone(own dtype)")
    check_data(data, c3.data, "clone(own dtype)")
    c3[p] = newv
    check_data(data, g.data, "writing into clone(own dtype) changed the "
               "original")
    c4 = g.clone(dt.type)
    g[p] = newv
    check_data(data, c4.data, "writing into the original changed its "
               "clone(own dtype)")
    g[p] = other
    c5 = g.clone(np.float64)
    if c5.data.dtype != np.float64 or np.shares_memory(c5.data, g.data):
        raise Violation("clone(float64) does not give an independent "
                        "float64 grid")
    c5.fill(3.0)
    check_data(data, g.data, "fill on clone(float64) changed the original")
    # a grid whose type was changed is a grid like any other: its dictionary
    # rebuilds it (type and no-data value of the new type)
    for newdt in (np.int64, np.float32):
        if dt.kind == "f" and newdt is np.int64 and \
                not np.all(np.isfinite(data)):
            continue
        try:
            c6 = g.clone(newdt)
        except (ValueError, OverflowError):
            continue
        nd6 = c6.nodata
        if isinstance(nd6, (float, np.floating)) and \
                not np.isfinite(float(nd6)) and newdt is np.int64:
            continue            # NaN / inf no-data has no integer form
        try:
            if float(nd6) != float(newdt(nd6)):
                continue        # not representable in the new type
        except (ValueError, OverflowError):
            continue
        d6 = json.loads(json.dumps(c6.to_dict(), default=lambda o: o.item()
                                   if hasattr(o, "item") else str(o)))
        try:
            r6 = Grid.from_dict(d6)
        except Exception as e:
            raise Violation(
                f"clone({np.dtype(newdt).name}) of a {dt.name} grid with "
                f"no-data {g.nodata!r}: from_dict(to_dict()) raises "
                f"{type(e).__name__}: {e}")
        if np.dtype(r6.dtype) != np.dtype(newdt) or \
                not same_value(newdt(r6.nodata), newdt(nd6)):
            raise Violation(
                f"clone({np.dtype(newdt).name}) -> to_dict -> from_dict: "
                f"dtype {np.dtype(r6.dtype).name}, no-data {r6.nodata!r} "
                f"(was {nd6!r})")
    labels_extra = "clone(dtype)->dict"

    # ---- clip
    nr, nc, csz = case["nrows"], case["ncols"], case["csz"]
    cA = sorted([int(case["clip"][0] * nc) % nc, int(case["clip"][1] * nc)
                 % nc])
    rA = sorted([int(case["clip"][2] * nr) % nr, int(case["clip"][3] * nr)
                 % nr])
    c0, c1 = cA
    rb0, rb1 = rA          # rows counted from the bottom
    m = case["clipmargin"]
    xl = case["xll"] + (c0 + m[0]) * csz
    xu = case["xll"] + (c1 + m[1]) * csz
    yl = case["yll"] + (rb0 + m[2]) * csz
    yu = case["yll"] + (rb1 + m[3]) * csz
    # the corners must land in the intended cells (rounding at huge origins)
    cells = g.coord2cell([[xl, yl], [xu, yu]])
    exp0 = (nr - 1 - rb0) * nc + c0
    exp1 = (nr - 1 - rb1) * nc + c1
    strict = cells[0] == exp0 and cells[1] == exp1
    on_edge = any(v == 0.0 for v in m)
    # a corner on a cell edge (or moved across one by rounding at a huge
    # origin) may belong to either cell: the box is then only required to
    # be a valid one
    valid_box = cells[0] >= 0 and cells[1] >= 0 and \
        cells[0] // nc >= cells[1] // nc and cells[0] % nc <= cells[1] % nc
    if strict or (on_edge and valid_box):
        gc = g.clip(xl, yl, xu, yu)
        if strict:
            r0, r1 = nr - 1 - rb1, nr - 1 - rb0
            block = data[r0:r1 + 1, c0:c1 + 1]
            check_data(np.ascontiguousarray(block), gc.data, "clip block")
            if (gc.parentgrid_rows_start, gc.parentgrid_rows_end,
                    gc.parentgrid_cols_start, gc.parentgrid_cols_end) != \
                    (r0, r1, c0, c1):
                raise Violation("clip: parent bookkeeping "
                                f"{gc.parentgrid_rows_start, gc.parentgrid_rows_end, gc.parentgrid_cols_start, gc.parentgrid_cols_end}"
                                f" != block {(r0, r1, c0, c1)}")
        else:
            labels.append("clip:corner-on-cell-edge")
        if gc.cellsize != g.cellsize or np.dtype(gc.dtype) != dt or \
                not same_value(gc.nodata, g.nodata):
            raise Violation("clip: cellsize/dtype/nodata differ from parent")
        ncl = gc.nrows * gc.ncols
        xy = gc.cell2coord(np.arange(ncl))
        pc = g.coord2cell(xy)
        if (pc < 0).any():
            raise Violation("clip: a clipped cell centre falls outside the "
                            f"parent grid (box {xl!r}, {yl!r}, {xu!r}, "
                            f"{yu!r})")
        # the centres do coincide with centres of the parent
        pxy = g.cell2coord(pc)
        if np.abs(pxy - xy).max() > 1e-6 * csz + 8 * np.spacing(
                max(abs(case["xll"]), abs(case["yll"])) + 8 * csz):
            raise Violation("clip: cell centres of the clipped grid do not "
                            "coincide with cell centres of the parent")
        pv = data.flat[pc]
        check_data(np.ascontiguousarray(pv.reshape(gc.nrows, gc.ncols)),
                   gc.data, "clip vs parent values at coinciding centres "
                   f"(box {xl!r}, {yl!r}, {xu!r}, {yu!r})")
        # the clipped grid (it carries parent bookkeeping) round-trips too
        gd = Grid.from_dict(json.loads(json.dumps(
            gc.to_dict(), default=lambda o: o.item()
            if hasattr(o, "item") else str(o))))
        check_meta(gc, gd, "clip -> to_dict/json/from_dict")
        gcl = gc.clone()
        check_meta(gc, gcl, "clip -> clone")
        check_data(gc.data, gcl.data, "clip -> clone")
        fclip = tmp / "clipped.bil"
        gc.save(fclip)
        gcs = Grid.from_header(fclip)
        check_meta(gc, gcs, "clip -> save/from_header")
        check_data(gc.data, gcs.data, "clip -> save/from_header")
        for att in ("rows_start", "rows_end", "cols_start", "cols_end"):
            if getattr(gcs, "parentgrid_" + att, None) != \
                    getattr(gc, "parentgrid_" + att):
                raise Violation(f"clip -> save/from_header loses the "
                                f"parent bookkeeping ({att})")
        labels.append("clip")
    else:
        labels.append("clip:corners-moved-by-rounding")

    big = dt.kind in "iu" and dt.itemsize == 8 and \
        np.any(np.abs(data.astype(object)) > 2**53)
    if big:
        labels.append("int64-beyond-2^53")
    nd0 = not (isinstance(case["nodata"], float) and
               math.isnan(case["nodata"])) and case["nodata"] == 0
    nt = case["dtype"] != "float64" or not nd0 or case["byteorder"] == "M" \
        or bool(big)
    return {"nt": nt, "labels": labels}


# ---------------------------------------------------------------- catchments
@st.composite
def catch_case(draw, tier):
    c = draw(G.random_grid(8, kinds=("forest", "forest", "majority")))
    n = c["shape"][0] * c["shape"][1]
    c["outlet"] = draw(st.integers(0, n - 1))
    c["ninlets"] = draw(st.integers(0, 2))
    c["pick"] = [draw(st.integers(0, 63)) for _ in range(2)]
    c["csz"] = draw(st.sampled_from([1., 0.05, 250.]))
    c["xll"] = draw(st.sampled_from([0., -123.456, 1e5]))
    # type of the flow direction raster handed to the catchment
    c["fdtype"] = draw(st.sampled_from(["int64", "int64", "int32", "int16",
                                        "uint8", "float32", "float64"]))
    return c


def catch_oracle(case):
    fd = G.fd_array(case)
    nr, nc = fd.shape
    n = fd.size
    down = G.down_model(fd)
    fdt = np.dtype(case.get("fdtype", "int64"))
    if np.any(fd < np.iinfo(fdt).min if fdt.kind in "iu" else False) or \
            (fdt.kind in "iu" and np.any(fd > np.iinfo(fdt).max)) or \
            (fdt.kind in "iu" and np.any(fd < np.iinfo(fdt).min)):
        fdt = np.dtype("int64")      # invalid codes outside the small type
    g = Grid("fd", nc, nr, dtype=fdt.type, cellsize=case["csz"],
             xllcorner=case["xll"], yllcorner=-case["xll"] / 2)
    g.data = fd.astype(fdt)
    # choose the outlet with the largest area to make it interesting
    sizes = [len(G.area_model(down, c, set())) for c in range(n)]
    outlet = case["outlet"] if sizes[case["outlet"]] > 1 else \
        int(np.argmax(sizes))
    area0 = sorted(G.area_model(down, outlet, set()) - {outlet})
    inlets = []
    for k in range(case["ninlets"]):
        if area0:
            c = area0[case["pick"][k] % len(area0)]
            if c not in inlets:
                inlets.append(c)
    ca = Catchment("cat", g)
    if np.shares_memory(ca.flowdir.data, g.data):
        raise Violation("a catchment shares its flow direction data with "
                        "the grid it was built from")
    ca.delineate_area(outlet, inlets if inlets else None, nval=4 * n + 8)
    labels = []
    d = ca.to_dict()
    dj = json.loads(json.dumps(d, default=lambda o: o.item()
                               if hasattr(o, "item") else str(o)))
    for what, dd in (("to_dict/from_dict", d),
                     ("to_dict/json/from_dict", dj)):
        cb = Catchment.from_dict(dd)
        if int(cb.idxcell_outlet) != outlet:
            raise Violation(f"{what}: outlet {outlet} -> "
                            f"{cb.idxcell_outlet}")
        got_in = cb.idxinlets
        if inlets:
            if got_in is None or sorted(int(x) for x in got_in) != \
                    sorted(inlets):
                raise Violation(f"{what}: inlets {sorted(inlets)} -> "
                                f"{got_in}")
        elif got_in is not None and len(got_in) > 0:
            raise Violation(f"{what}: inlets appeared: {got_in}")
        if sorted(int(x) for x in cb.idxcells_area) != \
                sorted(int(x) for x in ca.idxcells_area):
            raise Violation(f"{what}: area changed")
        if sorted(int(x) for x in cb.idxcells_area_filled) != \
                sorted(int(x) for x in ca.idxcells_area_filled):
            raise Violation(f"{what}: filled area changed")
        check_meta(ca.flowdir, cb.flowdir, what + " flowdir")
    # clone independence
    cc = ca.clone()
    v00 = ca.flowdir.data[0, 0]
    cc.flowdir.data[0, 0] = 3 if v00 != 3 else 5
    if ca.flowdir.data[0, 0] != v00:
        raise Violation("catchment clone shares its flow grid")
    if inlets:
        labels.append("with-inlets")
    labels.append(f"flowdir-dtype:{fdt.name}")
    return {"nt": bool(inlets) or fdt.name != "int64", "labels": labels}


SUBS = [
    Sub("C13.grid-roundtrips", oracle, strategy=grid_case,
        n=(400, 4000), shards=(16, 16)),
    Sub("C13.catchment-dict", catch_oracle, strategy=catch_case,
        n=(150, 2000), shards=(8, 16)),
]
