"""C06 - catchment delineation is exactly upstream reachability."""
import math
import os

import numpy as np
from hypothesis import strategies as st

from vf.core import Sub, Violation, Skip
from vf.props import gis_common as G
from hydrodiy.gis.grid import Grid, Catchment, delineate_river

PROPERTY = "C06"
RULE = ("(a) exhaustive: every flow grid of shape 1x1,1x2,2x1,1x3,3x1,2x2 "
        "(thorough adds 1x4,4x1, and 2x3,3x2 over seven codes) over the alphabet {0, eight ESRI "
        "codes, invalid code 3} x every outlet x inlet sets {none, each other "
        "single cell} x every river start; (b) Hypothesis: grids up to 12x12 "
        "(thorough 40x40) of three kinds (uniform codes with cycles, random "
        "acyclic forests, majority-direction, convergent on a pit), random outlet, 0..3 inlets "
        "(some on the outlet's chain), random river start and nval, cell size in {1, 2, .25, 1000, 30.87} and origins away from zero. Oracle: "
        "independent Python graph model built from the literal ESRI code "
        "table: downstream/upstream relations, area = outlet + cells whose "
        "walk reaches the outlet with no inlet on the way, filled area "
        "superset and = area + enclosed holes, flow path end/length, river cells/dist/dx/dy/x/y. Outlets "
        "on a flow cycle: only 'returns or raises ValueError'. Non-trivial = "
        "area >= 3 cells, or an inlet on a chain to the outlet, or <= 2 "
        "columns, or a diagonal step.")

_devnull = None


def quiet():
    """The kernels print progress on C stdout: send fd 1 to /dev/null in
    worker processes (verdict lines are printed by the parent)."""
    global _devnull
    if _devnull is None and os.environ.get("VF_WORKER_QUIET", "1") == "1":
        import multiprocessing as mp
        if mp.current_process().name != "MainProcess":
            _devnull = os.open(os.devnull, os.O_WRONLY)
            os.dup2(_devnull, 1)


def make_catchment(fd, geom=None):
    """geom = [cellsize, xllcorner, yllcorner] (unit cells at the origin by
    default): relations, areas and path lengths count cells, whatever the
    georeferencing."""
    nr, nc = fd.shape
    csz, xll, yll = geom or [1., 0., 0.]
    g = Grid("fd", nc, nr, dtype=np.int64, cellsize=csz, xllcorner=xll,
             yllcorner=yll)
    g.data = fd
    return g, Catchment("c", g)


def check_relations(ca, fd, down):
    n = fd.size
    d = ca.downstream(np.arange(n))
    if list(d) != list(down):
        raise Violation(f"downstream {list(d)} != model {list(down)} for "
                        f"grid {fd.tolist()}")
    u = ca.upstream(np.arange(n))
    if u.shape != (n, 9):
        raise Violation(f"upstream shape {u.shape}")
    for c in range(n):
        row = [int(x) for x in u[c]]
        ups = [x for x in row if x >= 0]
        exp = sorted(x for x in range(n) if down[x] == c)
        if sorted(ups) != exp or len(set(ups)) != len(ups):
            raise Violation(f"upstream({c}) = {row}, model {exp}, grid "
                            f"{fd.tolist()}")
        k = len(ups)
        if row[:k] != ups or any(x != -1 for x in row[k:]):
            raise Violation(f"upstream({c}) row not padded with -1: {row}")
    # vectors in another order and with repeats give the same rows
    order = [(7 * i + 3) % n for i in range(n)] + [0, n - 1, 0]
    # (queried as a list / an int32 array; a single cell as a scalar)
    d2 = ca.downstream(list(order))
    u2 = ca.upstream(np.array(order, dtype=np.int32))
    c1 = order[0]
    if [int(x) for x in ca.downstream(c1)] != [int(down[c1])] or \
            not np.array_equal(ca.upstream(c1), u[[c1]]):
        raise Violation(f"upstream/downstream of the single cell {c1} "
                        f"given as a scalar differ; grid {fd.tolist()}")
    if [int(x) for x in d2] != [int(down[c]) for c in order] or \
            not np.array_equal(u2, u[np.array(order)]):
        raise Violation(f"upstream/downstream depend on the order of the "
                        f"queried cells ({order}); grid {fd.tolist()}")


ICONT = ["list", "int64", "tuple", "int32", "float"]


def check_area(ca, fd, down, outlet, inlets, labels):
    nr, nc = fd.shape
    n = fd.size
    cyc = G.on_cycle(down, outlet)
    # the inlets as a list, tuple, int64 / int32 / float array
    ic = ICONT[(outlet + len(inlets)) % len(ICONT)] if inlets else "none"
    labels.add(f"inlets-as:{ic}")
    inl = {"none": None, "list": list(inlets), "tuple": tuple(inlets),
           "int64": np.array(inlets, dtype=np.int64),
           "int32": np.array(inlets, dtype=np.int32),
           "float": np.array(inlets, dtype=np.float64)}[ic]
    try:
        ca.delineate_area(outlet, inl, nval=4 * n + 8)
    except ValueError as e:
        if cyc:
            labels.add("cycle:rejected")
            return False
        raise Violation(f"delineate_area({outlet}, {inlets}) raised {e} on "
                        f"grid {fd.tolist()} without a cycle through the "
                        "outlet")
    if cyc:
        labels.add("cycle:bounded-result")
        return False
    a = [int(x) for x in ca.idxcells_area]
    m = G.area_model(down, outlet, set(inlets))
    if set(a) != m:
        raise Violation(f"area {sorted(a)} != model {sorted(m)} for outlet "
                        f"{outlet} inlets {inlets} grid {fd.tolist()}")
    if len(a) != len(set(a)):
        raise Violation(f"area lists a cell twice: {a}")
    filled = set(int(x) for x in ca.idxcells_area_filled)
    if not set(a) <= filled:
        raise Violation(f"filled area {sorted(filled)} does not contain "
                        f"area {sorted(a)}")
    if any(x < 0 or x >= n for x in filled):
        raise Violation(f"filled area outside grid: {sorted(filled)}")
    if a:
        # validity predicate for the hole filling: every true hole (not
        # reachable from outside even with diagonal moves) is filled, and
        # nothing is filled that can be reached with orthogonal moves
        must = set(a) | G.holes(nr, nc, a, diagonal=True)
        may = set(a) | G.holes(nr, nc, a, diagonal=False)
        if not (must <= filled <= may):
            raise Violation(
                f"filled area {sorted(filled)} is not area + holes: must "
                f"contain {sorted(must)}, may contain {sorted(may)}; area "
                f"{sorted(a)} on a {nr}x{nc} grid")
        if len(may) > len(a):
            labels.add("area-with-hole")
    nt = len(a) >= 3 or nc <= 2
    if a:
        ca.compute_flowpathlengths()
        fp = ca.flowpathlengths.values
        if fp.shape != (len(a), 3):
            raise Violation(f"flow path table shape {fp.shape}")
        if [int(x) for x in fp[:, 0]] != a:
            raise Violation("flow path start cells differ from area cells")
        for row in fp:
            c = int(row[0])
            if c == outlet:
                continue
            L, x, diag = 0.0, c, False
            while x != outlet:
                y = int(down[x])
                s = G.step_length(nc, x, y)
                diag = diag or s > 1
                L += s
                x = y
            if diag:
                labels.add("diagonal-step")
                nt = True
            if int(row[1]) != outlet or abs(row[2] - L) > 1e-9:
                raise Violation(
                    f"flow path from {c}: end {row[1]}, length {row[2]!r}; "
                    f"model end {outlet}, length {L!r}; grid {fd.tolist()}")
    if inlets:
        # inlet on a chain towards the outlet?
        m0 = G.area_model(down, outlet, set())
        if any(i in m0 for i in inlets):
            labels.add("inlet-on-chain")
            nt = True
    return nt


def check_reuse(ca, fd, down, case, labels):
    """The same Catchment object delineated again from another outlet, with
    a buffer that may be too small (the call then raises): whatever area the
    object reports afterwards is the upstream area of the outlet it
    reports, or it reports none."""
    n = fd.size
    out2 = case["start"]
    nval2 = case["nval"]
    if G.on_cycle(down, out2):
        labels.add("reuse:outlet-on-cycle")
    try:
        ca.delineate_area(out2, None, nval=nval2)
        labels.add("reuse:second-call-returned")
    except ValueError:
        labels.add("reuse:second-call-raised")
    try:
        a = [int(x) for x in ca.idxcells_area]
        f = set(int(x) for x in ca.idxcells_area_filled)
        o = int(ca.idxcell_outlet)
    except ValueError:
        labels.add("reuse:no-area-after-failure")
        return
    if G.on_cycle(down, o):
        return
    m = G.area_model(down, o, set())
    if set(a) != m and not (len(m) + 1 > nval2 and set(a) <= m):
        raise Violation(
            f"after delineate_area({out2}, nval={nval2}) on an object that "
            f"already held an area: reported outlet {o}, area {sorted(a)}, "
            f"upstream area of that outlet {sorted(m)}; grid {fd.tolist()}")
    if set(a) == m and not set(a) <= f:
        raise Violation("filled area does not contain the area after the "
                        "second delineation")


def check_two_objects(g, fd, down, case, outlet, labels):
    """Two Catchment objects on the same flow grid, a river traced in
    between, all with the same buffer size: what the first object reports
    after the later calls is still the area of its own outlet."""
    n = fd.size
    if G.on_cycle(down, outlet) or G.on_cycle(down, case["start"]):
        return
    N = 4 * n + 8
    a_obj = Catchment("first", g)
    a_obj.delineate_area(outlet, None, nval=N)
    first = [int(x) for x in a_obj.idxcells_area]
    b_obj = Catchment("second", g)
    b_obj.delineate_area(case["start"], None, nval=N)
    delineate_river(g, case["start"], nval=N)
    again = [int(x) for x in a_obj.idxcells_area]
    m = G.area_model(down, outlet, set())
    if set(first) != m or again != first:
        raise Violation(
            f"catchment of outlet {outlet} reports the area {again} after "
            f"another catchment (outlet {case['start']}) and a river were "
            f"delineated with the same buffer size; it reported {first} "
            f"before, upstream area {sorted(m)}; grid {fd.tolist()}")
    mb = G.area_model(down, case["start"], set())
    if set(int(x) for x in b_obj.idxcells_area) != mb:
        raise Violation("second catchment's area wrong after the river trace")
    if len(m) > 1:
        try:
            a_obj.compute_flowpathlengths()
            cells = set(int(c) for c in np.asarray(
                a_obj.flowpathlengths)[:, 0])
        except Exception as e:
            raise Violation(f"compute_flowpathlengths on the first catchment "
                            f"raised {type(e).__name__}: {e}")
        if not cells <= m:
            raise Violation(
                f"flow path table of the first catchment lists cells "
                f"{sorted(cells - m)} outside its area {sorted(m)}")
    labels.add("two-catchments+river-same-buffer-size")


def check_river(g, fd, down, start, nval, labels):
    nr, nc = fd.shape
    try:
        df = delineate_river(g, start, nval=nval)
    except ValueError as e:
        raise Violation(f"delineate_river({start}, nval={nval}) raised {e}")
    exp = []
    x = start
    while x >= 0 and len(exp) < nval:
        exp.append(x)
        x = int(down[x])
    cells = [int(c) for c in df["idxcell"].values]
    if cells != exp:
        raise Violation(f"river cells {cells} != walk {exp} from {start} "
                        f"(nval={nval}) grid {fd.tolist()}")
    dist = 0.0
    xy = g.cell2coord(np.array(exp))
    for i, c in enumerate(exp):
        if i == 0:
            dx = dy = 0.0
        else:
            p = exp[i - 1]
            rp, kp = divmod(p, nc)
            rc, kc = divmod(c, nc)
            dx, dy = float(kp - kc), float(rp - rc)
            dist += G.step_length(nc, p, c)
        row = df.iloc[i]
        if abs(row["dist"] - dist) > 1e-9 or row["dx"] != dx \
                or row["dy"] != dy:
            raise Violation(
                f"river row {i}: dist/dx/dy = {row['dist']!r}, {row['dx']}, "
                f"{row['dy']}; model {dist!r}, {dx}, {dy}; "
                f"grid {fd.tolist()} start {start}")
        if row["x"] != xy[i, 0] or row["y"] != xy[i, 1]:
            raise Violation(f"river row {i}: x, y differ from cell centre")
    if len(exp) == nval and x >= 0:
        labels.add("river:truncated-by-nval")


# ---------------------------------------------------------------- exhaustive
def exhaustive_oracle(case):
    quiet()
    fd = G.fd_array(case)
    n = fd.size
    nr, nc = fd.shape
    g, ca = make_catchment(fd)
    down = G.down_model(fd)
    labels = set()
    nt = False
    check_relations(ca, fd, down)
    for outlet in range(n):
        if n <= 4:
            inlet_sets = [[]] + [[i] for i in range(n) if i != outlet]
        else:
            inlet_sets = [[], [(outlet + 1) % n]]
        for inl in inlet_sets:
            nt = check_area(ca, fd, down, outlet, inl, labels) or nt
    for start in range(n):
        check_river(g, fd, down, start, 4 * n + 8, labels)
        check_river(g, fd, down, start, 2, labels)
    if 3 in case["fd"]:
        labels.add("invalid-code")
    labels.add(f"shape:{nr}x{nc}")
    return {"nt": nt, "labels": sorted(labels)}


def enum_cases(tier):
    import itertools
    it = G.enum_grids(list(G.SHAPES_QUICK))
    if tier == "thorough":
        # 1x4 / 4x1 over the full alphabet, 2x3 / 3x2 over seven codes
        it = itertools.chain(
            it, G.enum_grids([(1, 4), (4, 1)]),
            G.enum_grids([(2, 3), (3, 2)],
                         alphabet=[0, 1, 2, 4, 16, 64, 3]))
    return it


def enum_3x3(tier):
    """3x3 grids over in-grid directions only (no exit, no sink except the
    centre column pattern): thorough tier."""
    if tier != "thorough":
        return iter(())
    return G.enum_grids([(3, 3)], alphabet=[1, 4, 16, 64])


def enum_star(tier):
    """3x3 grids whose ring cells either point to the centre, are sinks, or
    point to the next ring cell clockwise; the centre holds any code of the
    alphabet (pits with up to 8 inflowing neighbours, convergent and
    rotating patterns): 3^8 * 10 = 65 610 grids."""
    ring = [(0, 0), (0, 1), (0, 2), (1, 2), (2, 2), (2, 1), (2, 0), (1, 0)]
    inv = {v: k for k, v in G.OFFSETS.items()}
    opts = []
    for i, (r, k) in enumerate(ring):
        to_centre = inv[(1 - r, 1 - k)]
        r2, k2 = ring[(i + 1) % 8]
        clockwise = inv[(r2 - r, k2 - k)]
        opts.append([to_centre, 0, clockwise])
    import itertools
    centres = G.ALPHABET if tier == "thorough" else [0, 3, 1, 32]
    for c in centres:
        for combo in itertools.product(*opts):
            fd = [0] * 9
            for (r, k), v in zip(ring, combo):
                fd[r * 3 + k] = v
            fd[4] = c
            yield {"shape": [3, 3], "fd": fd, "star": True}


def star_oracle(case):
    """Outlets: the centre and one corner; inlets: none / one ring cell."""
    quiet()
    fd = G.fd_array(case)
    g, ca = make_catchment(fd)
    down = G.down_model(fd)
    labels = set()
    check_relations(ca, fd, down)
    nt = False
    for outlet, inl in ((4, []), (4, [0]), (4, [8]), (8, []), (2, [4])):
        nt = check_area(ca, fd, down, outlet, inl, labels) or nt
    nup = sum(1 for c in range(9) if down[c] == 4)
    labels.add(f"centre-inflows:{nup}")
    return {"nt": nt or nup >= 7, "labels": sorted(labels)}


@st.composite
def convergent_grid(draw):
    """Every cell points towards a chosen pit (Chebyshev-nearest step), the
    pit holds a sink / invalid / outflowing code; a few cells are then
    perturbed."""
    nr, nc = draw(st.integers(3, 9)), draw(st.integers(3, 9))
    pr, pk = draw(st.integers(0, nr - 1)), draw(st.integers(0, nc - 1))
    inv = {v: k for k, v in G.OFFSETS.items()}
    fd = []
    for r in range(nr):
        for k in range(nc):
            if (r, k) == (pr, pk):
                fd.append(draw(st.sampled_from([0, 0, 3, 1, 64])))
            else:
                sgn = lambda v: (v > 0) - (v < 0)
                fd.append(inv[(sgn(pr - r), sgn(pk - k))])
    for _ in range(draw(st.integers(0, 3))):
        fd[draw(st.integers(0, nr * nc - 1))] = draw(
            st.sampled_from(G.ALPHABET))
    return {"shape": [nr, nc], "fd": fd, "kind": "convergent",
            "pit": pr * nc + pk}


# -------------------------------------------------------------------- random
@st.composite
def random_case(draw, tier):
    maxdim = 12
    if tier == "thorough" and draw(st.integers(0, 9)) == 0:
        maxdim = 40
    k_ = draw(st.integers(0, 7))
    if k_ == 0:
        c = draw(convergent_grid())
    elif k_ == 1:
        c = draw(G.serpentine_grid())
    else:
        c = draw(G.random_grid(maxdim, wide=True))
    n = c["shape"][0] * c["shape"][1]
    c["outlet"] = draw(st.integers(0, n - 1))
    if "pit" in c and draw(st.integers(0, 3)) > 0:
        c["outlet"] = c["pit"]
    c["inlets"] = draw(st.lists(st.integers(0, n - 1), max_size=3,
                                unique=True))
    c["inlet_on_chain"] = draw(st.integers(0, 3))
    # many inlets (list lengths around 8..12 and 16), in any order, most of
    # them on chains towards the outlet
    if n >= 14 and draw(st.integers(0, 3)) == 0:
        k = draw(st.sampled_from([8, 9, 10, 10, 11, 12, 16]))
        c["many_inlets"] = [draw(st.floats(0., 1., allow_nan=False))
                            for _ in range(k)]
        c["many_order"] = draw(st.sampled_from(["descending", "shuffled",
                                                "ascending"]))
    c["start"] = draw(st.integers(0, n - 1))
    c["nval"] = draw(st.sampled_from([1, 2, 5, 4 * n + 8]))
    c["geom"] = [draw(st.sampled_from([1., 1., 2., 0.25, 1000., 30.87])),
                 draw(st.sampled_from([0., 0., -1234.5, 1e5])),
                 draw(st.sampled_from([0., 0., 77.25, -3e6]))]
    return c


def check_disguised_inlets(fd, case, outlet, m0, labels):
    """Cells outside the area that touch it are given an invalid code that
    resembles the direction towards the area (its negative, its complement,
    the code shifted by one byte, the code plus 256 or 2^32) and are used as
    inlets: they are terminal cells, inlet or not."""
    nr, nc = fd.shape
    n = fd.size
    if len(m0) < 2:
        return
    fd2 = fd.copy()
    picks = []
    for c in range(n):
        if c in m0 or len(picks) >= 3:
            continue
        r, k = divmod(c, nc)
        for code, (dr, dc) in G.OFFSETS.items():
            r2, k2 = r + dr, k + dc
            if 0 <= r2 < nr and 0 <= k2 < nc and r2 * nc + k2 in m0:
                j = (c + len(picks) + case["start"]) % 6
                fd2[r, k] = [-code, -code, 256 + code, code * 256, ~code,
                             code + 2**32][j]
                picks.append(c)
                break
    if not picks:
        return
    g2, ca2 = make_catchment(fd2, case.get("geom"))
    down2 = G.down_model(fd2)
    check_area(ca2, fd2, down2, outlet, picks, labels)
    check_area(ca2, fd2, down2, outlet, picks + picks[:1], labels)
    if not np.array_equal(np.asarray(g2.data), fd2):
        raise Violation("delineate_area changed the flow direction grid")
    labels.add("inlets-on-invalid-cells-next-to-the-area")


def random_oracle(case):
    quiet()
    fd = G.fd_array(case)
    n = fd.size
    nr, nc = fd.shape
    g, ca = make_catchment(fd, case.get("geom"))
    down = G.down_model(fd)
    labels = {f"kind:{case['kind']}",
              "cellsize:" + ("1" if case.get("geom", [1.])[0] == 1
                             else "other")}
    check_relations(ca, fd, down)
    outlet = case["outlet"]
    # prefer an outlet with something upstream
    m0 = G.area_model(down, outlet, set())
    if not m0:
        best = max(range(n), key=lambda c: (len(G.area_model(down, c, set()))
                                            if n <= 64 else 0, -c))
        if n <= 64 and G.area_model(down, best, set()):
            outlet = best
            m0 = G.area_model(down, outlet, set())
    inlets = [i for i in case["inlets"] if i != outlet]
    if case["inlet_on_chain"] and len(m0) > 1:
        cand = sorted(m0 - {outlet})
        if case["inlet_on_chain"] >= 2:
            # prefer an interior leaf cell: as an inlet it leaves a hole in
            # the area that the hole filling must close
            def interior_leaf(c):
                r, k = divmod(c, nc)
                if r in (0, nr - 1) or k in (0, nc - 1):
                    return False
                if any(down[u] == c for u in range(n)):
                    return False
                return all((r + dr) * nc + k + dk in m0
                           for dr in (-1, 0, 1) for dk in (-1, 0, 1))
            leaves = [c for c in cand if interior_leaf(c)]
            if leaves:
                cand = leaves
                labels.add("inlet:interior-leaf")
        pick = cand[case["inlet_on_chain"] % len(cand)]
        if pick not in inlets:
            inlets.append(pick)
    if case.get("many_inlets") and len(m0) > 2:
        cand = sorted(m0 - {outlet})
        rest = [c for c in range(n) if c not in m0]
        picks = []
        for u in case["many_inlets"]:
            pool_ = cand if (len(picks) % 4 != 3 or not rest) else rest
            c_ = pool_[min(int(u * len(pool_)), len(pool_) - 1)]
            if c_ not in picks and c_ != outlet:
                picks.append(c_)
        # (duplicates were skipped: top up to the requested length)
        for c_ in cand + rest:
            if len(picks) >= len(case["many_inlets"]):
                break
            if c_ not in picks and c_ != outlet:
                picks.append(c_)
        if case["many_order"] == "descending":
            picks.sort(reverse=True)
        elif case["many_order"] == "ascending":
            picks.sort()
        inlets = picks
        labels.add(f"inlets:{len(picks)}:{case['many_order']}")
    nt = check_area(ca, fd, down, outlet, inlets, labels)
    if inlets:
        # the same set of inlets with cells listed more than once
        check_area(ca, fd, down, outlet, inlets + inlets, labels)
        check_area(ca, fd, down, outlet, inlets + inlets[:1], labels)
        labels.add("inlets-listed-twice")
    check_disguised_inlets(fd, case, outlet, m0, labels)
    check_two_objects(g, fd, down, case, outlet, labels)
    check_reuse(ca, fd, down, case, labels)
    check_river(g, fd, down, case["start"], case["nval"], labels)
    if any(G.chains(down)[1]):
        labels.add("grid-has-cycle")
    if nc <= 2:
        labels.add("cols<=2")
    return {"nt": nt, "labels": sorted(labels)}


# ------------------------------------------------------------ large grids
def enum_large(tier):
    quick = [(150, 200), (3, 6000), (6000, 3), (1, 30000), (1, 255), (1, 256), (1, 257), (16, 16), (17, 15), (32, 33), (64, 64), (128, 2), (2, 129)]
    shapes = quick if tier == "quick" else quick + [(400, 500), (2, 60000), (60000, 2)]
    for nr, nc in shapes:
        for k in range(3):
            yield {"nrows": nr, "ncols": nc, "k": k}


def large_oracle(case):
    """Every cell flows east, the last column flows south to one sink: the
    upstream area of any cell is known in closed form (default nval)."""
    quiet()
    nr, nc, k = case["nrows"], case["ncols"], case["k"]
    n = nr * nc
    fd = np.ones((nr, nc), dtype=np.int64)
    fd[:, -1] = 4
    fd[-1, -1] = 0
    g, ca = make_catchment(fd, [[1., 0., 0.], [25., 3e5, 6e6],
                                [0.001, -44., 112.]][k])

    def upstream_closed(cell):
        """cell plus everything draining through it"""
        r, c = divmod(cell, nc)
        if c < nc - 1:
            return set(range(r * nc, r * nc + c + 1))
        return set(range(0, (r + 1) * nc))

    outlet = [n - 1, (nr // 2) * nc + nc - 1, (nr - 1) * nc + nc // 2][k]
    inlet = [None, (nr // 3) * nc + nc // 2, (nr - 1) * nc + nc // 4][k]
    exp = upstream_closed(outlet)
    if inlet is not None:
        if inlet in exp and inlet != outlet:
            exp -= upstream_closed(inlet)
        else:
            inlet = None
    if len(exp) == 1:
        exp = set()
    ca.delineate_area(outlet, [inlet] if inlet is not None else None)
    a = np.asarray(ca.idxcells_area, dtype=np.int64)
    if len(a) != len(set(a.tolist())) or set(a.tolist()) != exp:
        got = set(a.tolist())
        raise Violation(
            f"{nr}x{nc} grid flowing east then south, outlet {outlet}, "
            f"inlet {inlet}: area has {len(a)} cells, model {len(exp)}; "
            f"missing e.g. {sorted(exp - got)[:3]}, extra e.g. "
            f"{sorted(got - exp)[:3]}")
    filled = set(int(x) for x in ca.idxcells_area_filled)
    if filled != exp:
        raise Violation("filled area differs from the (hole free) area on "
                        f"a {nr}x{nc} grid")
    if len(a):
        ca.compute_flowpathlengths()
        fp = ca.flowpathlengths.values
        ro, co = divmod(outlet, nc)
        if fp.shape != (len(a), 3):
            raise Violation(f"flow path table shape {fp.shape}")
        fp = fp[fp[:, 0].astype(np.int64) != outlet]
        r, c = np.divmod(fp[:, 0].astype(np.int64), nc)
        # cells of the outlet row left of it: straight east; others: east to
        # the last column then south (the outlet is then in the last column)
        L = np.where(r == ro, co - c, (nc - 1 - c) + (ro - r))
        if len(fp) != len(a) - 1 or \
                not np.all(fp[:, 1].astype(np.int64) == outlet) or \
                not np.allclose(fp[:, 2], L, atol=1e-9, rtol=0):
            i = int(np.argmax(~np.isclose(fp[:, 2], L, atol=1e-9, rtol=0)
                              | (fp[:, 1].astype(np.int64) != outlet)))
            raise Violation(
                f"{nr}x{nc} grid: flow path from {int(fp[i, 0])} to outlet "
                f"{outlet}: end {fp[i, 1]}, length {fp[i, 2]!r}, model "
                f"{L[i]!r}")
    # the river from the top-left cell runs along the first row and down
    # the last column
    df = delineate_river(g, 0)
    cells = df["idxcell"].values.astype(np.int64) \
        if "idxcell" in df.columns else df.index.values.astype(np.int64)
    expr = np.concatenate([np.arange(nc), nc - 1
                           + nc * np.arange(1, nr)]).astype(np.int64)
    if len(cells) != len(expr) or not np.array_equal(cells, expr):
        raise Violation(f"{nr}x{nc} grid: river from cell 0 has "
                        f"{len(cells)} cells, model {len(expr)}")
    return {"nt": True, "labels": [f"cells:{n}", f"area:{len(exp)}"]}


SUBS = [
    Sub("C06.large-grids", large_oracle, enumerate=enum_large,
        shards=(12, 16)),
    # (grids of at most 40x40 cells: a call that has not come back after
    # 90 s hangs - the "never a hang" clause)
    Sub("C06.exhaustive-small-grids", exhaustive_oracle, enumerate=enum_cases,
        shards=(16, 16), stall_s=90),
    Sub("C06.exhaustive-3x3-ingrid", exhaustive_oracle, enumerate=enum_3x3,
        shards=(1, 16), stall_s=90),
    Sub("C06.exhaustive-3x3-stars", star_oracle, enumerate=enum_star,
        shards=(16, 16), stall_s=90),
    Sub("C06.random-grids", random_oracle, strategy=random_case,
        n=(400, 12000), shards=(8, 16), stall_s=90),
]
