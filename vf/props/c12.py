"""C12 - bounded parameter vectors keep their invariants under any history."""
import itertools
import json
import math

import numpy as np
from hypothesis import strategies as st
from hypothesis.stateful import (RuleBasedStateMachine, rule, invariant,
                                 initialize, precondition)

from vf.core import Sub, Violation, Skip
from vf.props import tr_common as tc
from hydrodiy.data.containers import Vector
from hydrodiy.stat import transform as T

PROPERTY = "C12"
RULE = ("(a) exhaustive: every operation sequence of depth 3 (thorough: 4) "
        "over {set by attribute, set by key, set all, reset, "
        "clone-and-continue, clone-mutate-check-original, to_dict/from_dict "
        "(direct and through JSON) and continue, failing assignments (NaN "
        "when not accepted, wrong length, unknown key)} with values {-5, -1, "
        ".25, 1, 7, NaN} (inside, on, outside the bounds) on 12 vector "
        "configurations (0, 1, 2 names; finite / infinite bounds; "
        "check_hitbounds x accept_nan). (b) Hypothesis RuleBasedStateMachine: "
        "0..4 names, generated bounds (finite / infinite / degenerate), "
        "values at least 1e-6 from a bound or exactly on it, up to 50 steps "
        "over a pool of live vectors (originals, clones, dictionary copies) "
        "so that independence is checked across interleavings. (c) transforms: "
        "per class, generated interleavings of parameter/constant "
        "assignments with read-only calls. Oracle: plain-Python reference "
        "model of the vector; after every step the full observable state of "
        "every live vector equals its model; rejected assignments raise "
        "ValueError and change nothing; read-only transform calls leave "
        "params/constants values, bounds, defaults unchanged. Non-trivial = "
        "a clipped assignment followed later by clone or from_dict, or a "
        "rejected assignment, or a params_sample call on a class with an "
        "infinite bound.")

EPS = 1e-10


# ---------------------------------------------------------------- the model
class Model:
    def __init__(self, names, defaults, mins, maxs, chk, nan, cb=True):
        self.cb = bool(cb)
        self.names = list(names)
        self.mins = np.array(mins, dtype=float)
        self.maxs = np.array(maxs, dtype=float)
        self.defaults = np.array(defaults, dtype=float)
        self.chk, self.nan = bool(chk), bool(nan)
        self.values = self.defaults.copy()
        self.hit = False

    def copy(self):
        m = Model(self.names, self.defaults, self.mins, self.maxs, self.chk,
                  self.nan, self.cb)
        m.values = self.values.copy()
        m.hit = self.hit
        return m

    def set1(self, i, v):
        """True when the assignment is accepted."""
        if math.isnan(v) and not self.nan:
            return False
        if self.chk:
            self.hit = bool(v < self.mins[i] or v > self.maxs[i])
        self.values[i] = v if math.isnan(v) else \
            min(max(v, self.mins[i]), self.maxs[i])
        return True

    def setall(self, vec):
        vec = np.atleast_1d(np.array(vec, dtype=float))
        if len(vec) != len(self.names):
            return False
        if np.isnan(vec).any() and not self.nan:
            return False
        self.hit = bool(self.chk and np.any((vec < self.mins)
                                            | (vec > self.maxs)))
        self.values = np.where(np.isnan(vec), np.nan,
                               np.clip(vec, self.mins, self.maxs))
        return True

    def reset(self):
        self.setall(self.defaults)

    def obs(self):
        return (self.names, self.values.tolist(), self.mins.tolist(),
                self.maxs.tolist(), self.defaults.tolist(), self.hit,
                self.chk, self.nan, self.cb)


def observe(v):
    d = v.to_dict()
    dd = (int(d["nval"]), bool(d["hitbounds"]), bool(d["check_hitbounds"]),
          bool(d["accept_nan"]),
          [(str(e["name"]), float(e["value"]), float(e["min"]),
            float(e["max"]), float(e["default"])) for e in d["data"]])
    return (list(map(str, v.names)), v.values.tolist(), v.mins.tolist(),
            v.maxs.tolist(), v.defaults.tolist(), bool(v.hitbounds),
            bool(v.check_hitbounds), bool(v.accept_nan),
            bool(v.check_bounds)), dd


def same(a, b):
    return json.dumps(a) == json.dumps(b)        # NaN == NaN textually


def check_against(v, m, what):
    o, dd = observe(v)
    mo = m.obs()
    if not same(o, mo):
        raise Violation(f"after {what}: observable state\n  {o}\ndiffers "
                        f"from the reference model\n  {mo}")
    # values inside the bounds, NaN only when allowed
    vals = np.asarray(v.values, dtype=float)
    if np.isnan(vals).any() and not m.nan:
        raise Violation(f"after {what}: NaN stored although not accepted")
    ok = np.isnan(vals) | ((vals >= m.mins) & (vals <= m.maxs))
    if not ok.all():
        raise Violation(f"after {what}: values {vals} outside bounds")
    exp_dd = (len(m.names), m.hit, m.chk, m.nan,
              [(n, float(a), float(b), float(c), float(d)) for n, a, b, c, d
               in zip(m.names, m.values, m.mins, m.maxs, m.defaults)])
    if not same(dd, exp_dd):
        raise Violation(f"after {what}: to_dict() {dd} differs from the "
                        f"model {exp_dd}")


def np_default(o):
    if hasattr(o, "item"):
        return o.item()
    return str(o)


def make_vector(cfg):
    names, defaults, mins, maxs, chk, nan = cfg[:6]
    cb = cfg[6] if len(cfg) > 6 else True
    # constructor arguments left out: no lower / upper bounds, defaults (and
    # initial values) = zero clipped into the bounds
    omit = cfg[7] if len(cfg) > 7 else []
    if "mins" in omit:
        mins = [-math.inf] * len(names)
    if "maxs" in omit:
        maxs = [math.inf] * len(names)
    if "defaults" in omit:
        defaults = [min(max(0.0, a), b) for a, b in zip(mins, maxs)]
    cont = cfg[8] if len(cfg) > 8 else "list"
    if cont == "arrays" and len(names):
        a_n = np.array(list(names))
        a_d, a_lo, a_hi = (np.array(list(x), dtype=np.float64)
                           for x in (defaults, mins, maxs))
        v = Vector(a_n,
                   None if "defaults" in omit else a_d,
                   None if "mins" in omit else a_lo,
                   None if "maxs" in omit else a_hi,
                   check_bounds=cb, check_hitbounds=chk, accept_nan=nan)
        # the caller reuses its buffers for something else
        a_n[:] = "zz"
        a_d[:] = 12345.
        a_lo[:] = -77.
        a_hi[:] = 99999.
    elif cont == "tuple" and len(names):
        v = Vector(tuple(names),
                   None if "defaults" in omit else tuple(defaults),
                   None if "mins" in omit else tuple(mins),
                   None if "maxs" in omit else tuple(maxs),
                   check_bounds=cb, check_hitbounds=chk, accept_nan=nan)
    else:
        v = Vector(list(names),
                   None if "defaults" in omit else list(defaults),
                   None if "mins" in omit else list(mins),
                   None if "maxs" in omit else list(maxs),
                   check_bounds=cb, check_hitbounds=chk, accept_nan=nan)
    return v, Model(names, defaults, mins, maxs, chk, nan, cb)


def apply_op(pool, op, labels, flags):
    """pool: list of [vector, model]. op: JSON-able list. Executes the
    operation on the real vector and on the model."""
    kind = op[0]
    k = op[1] % len(pool) if len(pool) else 0
    v, m = pool[k]
    n = len(m.names)
    what = f"op {op} on vector {k}"
    if kind == "reset":
        v.reset()
        m.reset()
    elif kind == "clone":
        c = v.clone()
        if c is v:
            raise Violation("clone returns the same object")
        if flags.get("clipped"):
            flags["nt"] = True
            labels.add("clone-after-clip")
        if op[2] == "replace":
            pool[k] = [c, m.copy()]
        else:
            pool.append([c, m.copy()])
    elif kind == "dict":
        d = v.to_dict()
        if op[2] == "json":
            d = json.loads(json.dumps(d, default=np_default))
        w = Vector.from_dict(d)
        if flags.get("clipped"):
            flags["nt"] = True
            labels.add("from_dict-after-clip")
        if op[3] == "replace":
            pool[k] = [w, m.copy()]
        else:
            pool.append([w, m.copy()])
    elif kind in ("attr", "key"):
        if n == 0:
            return
        i = op[2] % n
        val = float(op[3])
        accepted = m.copy().set1(i, val)
        try:
            if kind == "attr":
                setattr(v, m.names[i], val)
            else:
                v[m.names[i]] = val
            raised = False
        except ValueError:
            raised = True
        if raised == accepted:
            raise Violation(
                f"{what}: assignment of {val!r} "
                + ("raised ValueError although it is admissible" if raised
                   else "was accepted although it must be rejected"))
        if accepted:
            m.set1(i, val)
            if m.hit:
                flags["clipped"] = True
        else:
            flags["nt"] = True
            labels.add("rejected:nan")
    elif kind == "key_unknown":
        # an unknown key - including names of attributes and methods of the
        # vector object, which are not keys either
        bad_key = op[2] if len(op) > 2 else "zz_unknown"
        bad_val = [0.25] * max(n, 1) if bad_key in ("values", "_values",
                                                    "_mins") else 1.0
        try:
            v[bad_key] = bad_val
        except ValueError:
            flags["nt"] = True
            labels.add("rejected:unknown-key")
        else:
            raise Violation(f"{what}: unknown key {bad_key!r} accepted")
    elif kind == "all":
        vec = [float(x) for x in op[2]]
        accepted = m.copy().setall(vec)
        # a list, a flat array, or the same values as an [n, 1] column, a
        # [1, n] row or a [2, n/2] block (all accepted and flattened)
        given = list(vec) if op[3] == "list" else np.array(vec)
        if op[3] == "column":
            given = given[:, None].copy()
        elif op[3] == "row":
            given = given[None, :].copy()
        elif op[3] == "block" and len(vec) % 2 == 0 and len(vec) >= 4:
            given = given.reshape(2, -1).copy()
        try:
            v.values = given
            raised = False
        except ValueError:
            raised = True
        # the caller goes on using its own array: the vector keeps what it
        # was given (checked against the model below)
        if isinstance(given, np.ndarray) and given.size:
            given[:] = -98765.4321
            labels.add("caller-array-overwritten-after-assignment")
        if raised == accepted:
            raise Violation(
                f"{what}: whole-vector assignment of {vec} "
                + ("raised ValueError although admissible" if raised
                   else "was accepted although it must be rejected"))
        if accepted:
            m.setall(vec)
            if m.hit:
                flags["clipped"] = True
        else:
            flags["nt"] = True
            labels.add("rejected:length-or-nan")
    else:
        raise KeyError(kind)
    # every live vector agrees with its model (independence included)
    for j, (vv, mm) in enumerate(pool):
        check_against(vv, mm, what + f" (checking vector {j})")


# ------------------------------------------------------------- (a) exhaustive
CONFIGS = []
for _chk in (False, True):
    for _nan in (False, True):
        CONFIGS.append((["a", "b"], [0., 1.], [-1., 0.], [1., math.inf],
                        _chk, _nan))
        CONFIGS.append((["p"], [0.5], [0.], [1.], _chk, _nan))
        CONFIGS.append(([], [], [], [], _chk, _nan))
NAN = float("nan")


def ops_for(n):
    vals = [-5., -1., 0.25, 1., 7., NAN]
    ops = [["reset", 0], ["clone", 0, "replace"], ["clone", 0, "add"],
           ["dict", 0, "direct", "replace"], ["dict", 0, "json", "replace"],
           ["key_unknown", 0], ["key_unknown", 0, "values"],
           ["key_unknown", 0, "_mins"]]
    for i in range(n):
        for v in vals:
            ops.append(["attr", 0, i, v])
        for v in (-5., 0.25, NAN):
            ops.append(["key", 0, i, v])
    if n:
        for vec in ([-5.] * n, [0.25] * n, [7.] + [0.25] * (n - 1),
                    [NAN] + [0.25] * (n - 1), [0.25] * (n + 1)):
            ops.append(["all", 0, vec, "list"])
    return ops


def enum_cases(tier):
    depth = 3 if tier == "quick" else 4
    for ci, cfg in enumerate(CONFIGS):
        ops = ops_for(len(cfg[0]))
        if depth == 4 and len(ops) > 20:
            # depth 4 on the two-name configuration: first op restricted to
            # the assignments (everything else is covered at depth 3)
            first = [o for o in ops if o[0] in ("attr", "all", "key")]
            for f in first:
                for seq in itertools.product(ops, repeat=3):
                    yield {"cfg": ci, "ops": [f] + list(seq)}
            continue
        for seq in itertools.product(ops, repeat=depth):
            yield {"cfg": ci, "ops": list(seq)}


def seq_oracle(case):
    if "cfg" in case:
        cfg = CONFIGS[case["cfg"]]
    else:
        cfg = tuple(case["config"])
    v, m = make_vector(cfg)
    pool = [[v, m]]
    labels, flags = set(), {}
    check_against(v, m, "construction")
    for op in case["ops"]:
        apply_op(pool, op, labels, flags)
    # the most recently added vector continues the history: mutate it and
    # make sure the others did not move (done by check_against in apply_op)
    return {"nt": bool(flags.get("nt")), "labels": sorted(labels)}


# ---------------------------------------------------------- (b) state machine
@st.composite
def config(draw):
    n = draw(st.integers(0, 4))
    # element names: plain, with a leading underscore, with capitals
    names = draw(st.lists(st.sampled_from(["n0", "n1", "n2", "n3", "_lam",
                                           "_a1", "Xb", "long_name_7", "nu",
                                           "__k"]),
                          min_size=n, max_size=n, unique=True))
    mins, maxs, defaults = [], [], []
    for _ in range(n):
        kind = draw(st.sampled_from(["finite", "finite", "lower", "upper",
                                     "free", "degenerate"]))
        lo = float(draw(st.integers(-5, 4)))
        w = float(draw(st.sampled_from([0.5, 1., 3., 1000.])))
        if kind == "finite":
            mn, mx = lo, lo + w
        elif kind == "lower":
            mn, mx = lo, math.inf
        elif kind == "upper":
            mn, mx = -math.inf, lo
        elif kind == "free":
            mn, mx = -math.inf, math.inf
        else:
            mn, mx = lo, lo
        mins.append(mn)
        maxs.append(mx)
        u = draw(st.sampled_from([0., 0.25, 1.]))
        a = mn if math.isfinite(mn) else (mx - 10 if math.isfinite(mx)
                                          else -10.)
        b = mx if math.isfinite(mx) else a + 20
        defaults.append(a + u * (b - a))
    chk = draw(st.booleans())
    nan = draw(st.booleans())
    # check_bounds can only be switched off without hit checking (the
    # values are clipped whatever its value)
    cb = True if chk else draw(st.booleans())
    omit = draw(st.sampled_from([[], [], [], ["defaults"], ["defaults"],
                                 ["mins"], ["maxs"], ["defaults", "mins"],
                                 ["defaults", "maxs"],
                                 ["defaults", "mins", "maxs"]]))
    # the constructor arguments given as lists, or as numpy arrays / a tuple
    # that the caller overwrites straight after the construction
    cont = draw(st.sampled_from(["list", "list", "arrays", "arrays",
                                 "tuple"]))
    return [names, defaults, mins, maxs, chk, nan, cb, omit, cont]


@st.composite
def value_for(draw, mn, mx):
    """inside, exactly on a bound, or outside by at least 1e-6."""
    a = mn if math.isfinite(mn) else (mx - 10 if math.isfinite(mx) else -10.)
    b = mx if math.isfinite(mx) else a + 20
    k = draw(st.sampled_from(["in", "in", "lo", "hi", "below", "above",
                              "nan", "inf"]))
    if k == "in":
        u = draw(st.sampled_from([0.25, 0.5, 0.75]))
        return a + u * (b - a) if b > a else a
    if k == "lo":
        return a
    if k == "hi":
        return b
    if k == "below":
        return a - draw(st.sampled_from([1e-6, 1., 1e6]))
    if k == "above":
        return b + draw(st.sampled_from([1e-6, 1., 1e6]))
    if k == "nan":
        return NAN
    return draw(st.sampled_from([math.inf, -math.inf]))


def machine_factory(tier, rec):
    class VectorMachine(RuleBasedStateMachine):
        def __init__(self):
            super().__init__()
            self.pool = []
            self.cfg = None
            self.log = []
            self.labels, self.flags = set(), {}

        def case(self):
            return {"config": self.cfg, "ops": self.log}

        def do(self, op):
            self.log.append(op)
            try:
                apply_op(self.pool, op, self.labels, self.flags)
            except Violation as e:
                if rec is not None:
                    rec.machine_failure(self.case(), str(e))
                raise
            except Exception as e:
                from vf.core import from_code_under_test
                if from_code_under_test(e):
                    msg = ("unexpected exception from the code under test: "
                           f"{type(e).__name__}: {e}")
                    if rec is not None:
                        rec.machine_failure(self.case(), msg)
                    raise Violation(msg) from e
                raise

        @initialize(cfg=config())
        def start(self, cfg):
            self.cfg = cfg
            if rec is not None:
                rec.machine_begin(self.case())
            try:
                v, m = make_vector(tuple(cfg))
                self.pool = [[v, m]]
                check_against(v, m, "construction")
            except Violation as e:
                if rec is not None:
                    rec.machine_failure(self.case(), str(e))
                raise
            except Exception as e:
                from vf.core import from_code_under_test
                if from_code_under_test(e):
                    msg = ("unexpected exception from the code under test "
                           f"at construction: {type(e).__name__}: {e}")
                    if rec is not None:
                        rec.machine_failure(self.case(), msg)
                    raise Violation(msg) from e
                raise

        def _n(self, k):
            return len(self.pool[k % len(self.pool)][1].names)

        @rule(k=st.integers(0, 7), i=st.integers(0, 3), data=st.data(),
              how=st.sampled_from(["attr", "key"]))
        def set_one(self, k, i, data, how):
            m = self.pool[k % len(self.pool)][1]
            if not m.names:
                return
            i = i % len(m.names)
            val = data.draw(value_for(m.mins[i], m.maxs[i]))
            self.do([how, k, i, val])

        @rule(k=st.integers(0, 7), data=st.data(),
              wrong=st.sampled_from([0, 0, 0, 0, 1, -1]),
              cont=st.sampled_from(["list", "array", "array", "column",
                                    "row", "block"]))
        def set_all(self, k, data, wrong, cont):
            m = self.pool[k % len(self.pool)][1]
            n = len(m.names)
            vec = [data.draw(value_for(m.mins[i], m.maxs[i]))
                   for i in range(n)]
            if wrong == 1:
                vec = vec + [0.]
            elif wrong == -1 and n > 0:
                vec = vec[:-1]
            elif wrong == -1:
                vec = [0.]
            self.do(["all", k, vec, cont])

        @rule(k=st.integers(0, 7))
        def reset(self, k):
            self.do(["reset", k])

        @precondition(lambda self: len(self.pool) < 6)
        @rule(k=st.integers(0, 7))
        def clone_add(self, k):
            self.do(["clone", k, "add"])

        @rule(k=st.integers(0, 7))
        def clone_replace(self, k):
            self.do(["clone", k, "replace"])

        @rule(k=st.integers(0, 7), how=st.sampled_from(["direct", "json"]),
              mode=st.sampled_from(["replace", "add"]))
        def dict_roundtrip(self, k, how, mode):
            if mode == "add" and len(self.pool) >= 6:
                mode = "replace"
            self.do(["dict", k, how, mode])

        @rule(k=st.integers(0, 7),
              name=st.sampled_from(["zz_unknown", "values", "_values",
                                    "_mins", "_maxs", "_defaults", "reset",
                                    "names", "_hitbounds", "nval", ""]))
        def unknown_key(self, k, name):
            self.do(["key_unknown", k, name])

        def teardown(self):
            if rec is not None and self.cfg is not None:
                self.labels.add(f"names:{len(self.cfg[0])}")
                self.labels.add(f"pool:{len(self.pool)}")
                rec.machine_end(self.case(), {
                    "nt": bool(self.flags.get("nt")),
                    "labels": sorted(self.labels)})

    return VectorMachine


# -------------------------------------------------------------- (c) transforms
READONLY = ["forward", "backward", "jacobian", "backward_censored",
            "params_sample", "params_logprior", "str", "getitem",
            "params_sample_small"]


@st.composite
def transform_ops(draw, cls):
    case = draw(tc.transform_case(cls, nsettings=3, nmin=1, nmax=6))
    ops = []
    for si in range(3):
        ops.append(["set", si])
        for _ in range(draw(st.integers(1, 4))):
            ops.append(["call", draw(st.sampled_from(READONLY)), si])
    case["ops"] = ops
    case["seed"] = draw(st.integers(0, 2**31 - 1))
    return case


def snapshot(t):
    def vec(v):
        return (list(map(str, v.names)), v.values.tolist(), v.mins.tolist(),
                v.maxs.tolist(), v.defaults.tolist(), bool(v.hitbounds))
    return json.dumps([vec(t.params), vec(t.constants)])


def make_transform_oracle(cls):
    def oracle(case):
        t = getattr(T, cls)(**case["ctor"])
        labels = set()
        nt = False
        inf_bound = bool(np.isinf(t.params.mins).any()
                         or np.isinf(t.params.maxs).any())
        ini = json.loads(snapshot(t))
        for op in case["ops"]:
            setting = case["settings"][op[-1]]
            if op[0] == "set":
                tc.apply(t, setting["p"])
                continue
            name = op[1]
            try:
                pts = tc.points(t, case, setting)
            except Skip:
                continue
            x = pts["x"]
            before = snapshot(t)
            np.random.seed(case["seed"])
            try:
                if name == "forward":
                    t.forward(x.copy())
                elif name == "backward":
                    t.backward(np.asarray(t.forward(x.copy())))
                elif name == "jacobian":
                    t.jacobian(x.copy())
                elif name == "backward_censored":
                    if cls in ("YeoJohnson", "Softmax"):
                        continue
                    t.backward_censored(np.asarray(t.forward(x.copy())),
                                        float(np.ravel(x)[0]))
                elif name == "params_sample":
                    t.params_sample()
                    if inf_bound:
                        nt = True
                        labels.add("params_sample:infinite-bound")
                elif name == "params_sample_small":
                    t.params_sample(7)
                elif name == "params_logprior":
                    t.params_logprior()
                elif name == "str":
                    str(t)
                    str(t.params)
                elif name == "getitem":
                    for nm in list(t.params.names) + list(t.constants.names):
                        t[str(nm)]
            except (ValueError, NotImplementedError):
                # a read-only call may refuse its input; it still must not
                # change anything
                labels.add(f"raised:{name}")
            after = snapshot(t)
            if after != before:
                raise Violation(
                    f"{cls}.{name} changed the transform state:\n  before "
                    f"{before}\n  after  {after}")
            labels.add(f"call:{name}")
        # names, bounds, defaults never change over the whole history
        fin = json.loads(snapshot(t))
        for a, b, what in ((ini[0], fin[0], "params"),
                           (ini[1], fin[1], "constants")):
            if json.dumps([a[0], a[2], a[3], a[4]]) != \
                    json.dumps([b[0], b[2], b[3], b[4]]):
                raise Violation(f"{cls} {what} names/bounds/defaults changed "
                                f"over the history: {a} -> {b}")
        return {"nt": nt or not inf_bound, "labels": sorted(labels)}
    return oracle


SUBS = [
    Sub("C12.exhaustive-sequences", seq_oracle, enumerate=enum_cases,
        shards=(16, 16)),
    Sub("C12.state-machine", seq_oracle, machine=machine_factory,
        n=(100, 1500), steps=(40, 50), shards=(8, 16)),
] + [
    Sub(f"C12.transform-readonly.{cls}", make_transform_oracle(cls),
        strategy=(lambda tier, cls=cls: transform_ops(cls)),
        n=(150, 4000), shards=(1, 1))
    for cls in tc.CLASSES
]
