"""C09 - CSV files with comment headers round-trip through write_csv /
read_csv."""
import math
import os
import shutil
import string
import tempfile
import zipfile
from pathlib import Path

import numpy as np
import pandas as pd
from hypothesis import strategies as st

from vf.core import Sub, Violation, Skip, OUT
from hydrodiy.io import csv

PROPERTY = "C09"
RULE = ("Hypothesis-generated frames (1..30 rows x 1..6 columns; unique "
        "names over letters, digits, space, dash, underscore without edge "
        "blanks; float / integer / text columns, text over letters, digits "
        "and ` ,\"':#;-_./()[]{}!?@$%^&*+=<>|~` with a non-blank character, "
        "not a pandas NA/boolean token and at least one non-numeric value "
        "per column), comment dictionaries (0..4 lower-case keys of <= 25 "
        "characters, reserved keys excluded; printable stripped single-line "
        "values with colons), storage modes plain / compress=True under "
        ".csv, .zip, .txt and extension-less names / member of a "
        "caller-supplied archive in a sub-folder, float formats %0.5f, "
        "%0.2f, %0.10e, %.17g, write_sys_info on/off. Oracle: read back = "
        "same column names in order, same number of rows, equal text, equal "
        "integers, floats within half a unit of the last printed digit "
        "(1e-11 relative for %.17g: pandas' default parser is not correctly rounded), NaN stays NaN, comments returned unchanged, "
        "nrow/ncol recorded, archive holds exactly one member. Non-trivial = "
        "compressed/archive mode, or a text value with a separator or quote, "
        "or a comment value with a colon.")

NAME_CHARS = string.ascii_letters + string.digits + " -_"
TEXT_CHARS = string.ascii_letters + string.digits + \
    " ,\"':#;-_./()[]{}!?@$%^&*+=<>|~"
NA_TOKENS = {"", "#N/A", "#N/A N/A", "#NA", "-1.#IND", "-1.#QNAN", "-NaN",
             "-nan", "1.#IND", "1.#QNAN", "<NA>", "N/A", "NA", "NULL", "NaN",
             "None", "n/a", "nan", "null"}
BOOL_TOKENS = {"true", "false", "yes", "no"}
RESERVED = {"nrow", "ncol", "time_generated", "author", "source_file",
            "work_dir", "python_environment", "python_version",
            "pandas_version", "numpy_version", "python_inc", "python_lib"}
FORMATS = ["%0.5f", "%0.2f", "%0.10e", "%.17g"]
MODES = ["plain.csv", "plain.txt", "plain", "zip.csv", "zip.zip", "zip",
         "zip.txt", "archive", "zip.csv.zip", "zip.csv.csv", "zip.v2.zip",
         "plain.csv.csv", "zip.CSV", "zip.tar.zip"]


def looks_numeric(s):
    try:
        float(s)
        return True
    except ValueError:
        return False


@st.composite
def colname(draw):
    s = draw(st.text(NAME_CHARS, min_size=1, max_size=12))
    s = s.strip()
    if not s:
        s = "c"
    return s


@st.composite
def text_value(draw):
    s = draw(st.text(TEXT_CHARS, min_size=1, max_size=14))
    if not s.strip() or s.strip() in NA_TOKENS or s in NA_TOKENS \
            or s.strip().lower() in BOOL_TOKENS:
        s = "v" + s
    return s


@st.composite
def cases(draw, tier):
    nrow = draw(st.integers(1, 30))
    ncol = draw(st.integers(1, 6))
    names = draw(st.lists(colname(), min_size=ncol, max_size=ncol,
                          unique=True))
    cols = []
    for _ in range(ncol):
        kind = draw(st.sampled_from(["float", "int", "text"]))
        if kind == "float":
            sc = 10.0 ** draw(st.integers(-3, 6))
            v = [draw(st.one_of(
                st.floats(-3., 3., allow_nan=False).map(lambda z: z * sc),
                st.just(float("nan")), st.sampled_from([0., 1., -1.5])))
                for _ in range(nrow)]
        elif kind == "int":
            v = [draw(st.one_of(st.integers(-10**6, 10**6),
                                st.sampled_from([2**53, -2**53, 0])))
                 for _ in range(nrow)]
        else:
            v = [draw(text_value()) for _ in range(nrow)]
            if all(looks_numeric(t) for t in v):
                v[0] = "x" + v[0]
        cols.append({"kind": kind, "values": v})
    nk = draw(st.integers(0, 4))
    # free keys, and keys that extend, shorten or embed a reserved name
    # (ncols, nrow_valid, my_author, autho, source_file2 ...)
    near = st.builds(
        lambda r, pre, suf, cut: (pre + (r[:-1] if cut else r) + suf)[:25],
        st.sampled_from(sorted(RESERVED)),
        st.sampled_from(["", "", "", "my_", "x", "n", "_"]),
        st.sampled_from(["", "s", "_obs", "2", "_", "s_valid", "x"]),
        st.booleans())
    keys = draw(st.lists(
        st.one_of(st.text(string.ascii_lowercase + string.digits + "_",
                          min_size=1, max_size=25), near, near)
        .filter(lambda k: k not in RESERVED and k.strip("_") != ""),
        min_size=nk, max_size=nk, unique=True))
    comment = {}
    for k in keys:
        val = draw(st.one_of(
            st.text(string.ascii_letters + string.digits
                    + " :,;#-_./()[]'\"!?@%&*+=<>", min_size=1, max_size=40),
            # quoting and separators as a csv parser would read them
            st.sampled_from(['upstream: 410730,"Cotter at Gingera', 'a,"b',
                             '"', '""', 'x,"y",z', "it's, 'quoted", '",',
                             'tab\there', 'a,b,c,d,e,f,g,h', ',', '#,"#',
                             '5" pipe', "O'Neil,\"x", 'back\\slash,"q',
                             '410730 : Cotter at Gingera', 'obs : sim : ref',
                             '1990-01-01 00:00 : 2020-12-31 23:00', 'a :b',
                             'key : value', 'x: y', 'p :', ': q', '::', '#',
                             '# nrow : 5']),
        )).strip()
        if not val or "-" * 10 in val:
            val = "c:" + val.replace("-", "")
        comment[k] = val
    return {"names": names, "cols": cols, "comment": comment,
            "long": draw(st.sampled_from(
                [None] * 10 + [["comment", 300], ["comment", 600],
                               ["comment", 7000], ["wide", 400],
                               ["wide", 1000]])),
            "mode": draw(st.sampled_from(MODES)),
            "fmt": draw(st.sampled_from(FORMATS)),
            "sysinfo": draw(st.booleans()),
            "author": draw(st.sampled_from([None, None, "j doe",
                                            "team: hydro #2"])),
            "index": draw(st.sampled_from(["default", "default", "permuted",
                                           "gaps", "dates", "labels"])),
            "iperm": draw(st.permutations(list(range(nrow)))),
            "stem": draw(st.sampled_from(["x", "data_1", "a.b", "File-2"]))}


def build_frame(case):
    d = {}
    for name, c in zip(case["names"], case["cols"]):
        if c["kind"] == "float":
            d[name] = np.array(c["values"], dtype=np.float64)
        elif c["kind"] == "int":
            d[name] = np.array(c["values"], dtype=np.int64)
        else:
            d[name] = list(c["values"])
    df = pd.DataFrame(d, columns=case["names"])
    # the frame's own index is not written (write_index=False) and must not
    # matter: sorted / filtered / dated / labelled frames
    kind = case.get("index", "default")
    n = len(df)
    if kind == "permuted":
        df.index = list(case["iperm"])
    elif kind == "gaps":
        df.index = [3 * i + 1 for i in range(n)]
    elif kind == "dates":
        df.index = pd.date_range("2001-01-01", periods=n)
    elif kind == "labels":
        df.index = [f"r{i}" for i in range(n)]
    return df


def float_tol(fmt, v):
    # pandas' default C float parser is not correctly rounded: long
    # fixed-notation strings are truncated ("0.00059374999999999997" ->
    # 0.0005937499999999), measured worst relative error 9.8e-13 over 1.2e5
    # values. That is not csv.py's doing: allow 1e-11 relative on top of the
    # format's own precision.
    return _float_tol(fmt, v) + 1e-11 * abs(v)


def _float_tol(fmt, v):
    if fmt == "%.17g":
        return 0.0
    if fmt.endswith("f"):
        nd = int(fmt[-2])
        return 0.5000001 * 10.0 ** (-nd)
    # %0.10e
    if v == 0:
        return 0.0
    return 0.5000001 * 10.0 ** (math.floor(math.log10(abs(v))) - 10)


def expand(case):
    """Long header lines: a comment value of several thousand characters (a
    list of station ids), or hundreds of columns (an ensemble) whose joined
    names run over several thousand characters."""
    lg = case.get("long")
    if not lg:
        return case
    case = dict(case)
    if lg[0] == "comment":
        case["comment"] = dict(case["comment"])
        case["comment"]["stations_list"] = ", ".join(
            f"id:{410000 + k}" for k in range(lg[1]))
    else:
        nrow = len(case["cols"][0]["values"])
        names, cols = list(case["names"]), list(case["cols"])
        for k in range(lg[1]):
            nm = f"ens_{k:04d}"
            if nm in names:
                continue
            names.append(nm)
            cols.append({"kind": "float",
                         "values": [((k * 7 + r * 3) % 11 - 2) * 0.25
                                    for r in range(nrow)]})
        case["names"], case["cols"] = names, cols
    return case


def oracle(case):
    case = expand(case)
    df = build_frame(case)
    base = OUT / "tmp"
    base.mkdir(parents=True, exist_ok=True)
    tmp = Path(tempfile.mkdtemp(prefix=f"csv-{os.getpid()}-", dir=base))
    try:
        return run(case, df, tmp)
    finally:
        shutil.rmtree(tmp, ignore_errors=True)


def run(case, df, tmp):
    mode, stem = case["mode"], case["stem"]
    src = tmp / "script.py"
    src.write_text("# source\n")
    kw = dict(float_format=case["fmt"], write_sys_info=case["sysinfo"])
    if case.get("author") is not None:
        kw["author"] = case["author"]
    labels = [f"mode:{mode}", f"fmt:{case['fmt']}",
              f"index:{case.get('index', 'default')}"]
    if case.get("long"):
        labels.append(f"long-header-line:{case['long'][0]}")
    comment = dict(case["comment"])
    if mode == "archive":
        zpath = tmp / "arch.zip"
        member = f"sub/dir/{stem}.csv"
        # other members of the same archive, written before and after, whose
        # names contain / end with the requested one
        decoy = pd.DataFrame({"decoy": [1.5, 2.5, 3.5, 4.5, 5.5, 6.5, 7.5]})
        with zipfile.ZipFile(zpath, "w") as ar:
            csv.write_csv(decoy, "zz" + member, {"who": "decoy"}, src,
                          archive=ar, **kw)
            csv.write_csv(df, member, comment, src, archive=ar, **kw)
            csv.write_csv(decoy, member + ".bak.csv", {"who": "decoy"}, src,
                          archive=ar, **kw)
        with zipfile.ZipFile(zpath, "r") as ar:
            names = ar.namelist()
            if sorted(names) != sorted(["zz" + member, member,
                                        member + ".bak.csv"]):
                raise Violation(f"archive members {names}")
            back, com = csv.read_csv(member, archive=ar)
    else:
        kind, _, ext = mode.partition(".")
        fname = tmp / (stem + ("." + ext if ext else ""))
        compress = kind == "zip"
        csv.write_csv(df, fname, comment, src, compress=compress, **kw)
        if compress:
            zs = sorted(p.name for p in tmp.iterdir() if p.suffix == ".zip")
            if len(zs) != 1:
                raise Violation(f"compress=True with name {fname.name} "
                                f"produced {sorted(p.name for p in tmp.iterdir())}")
            with zipfile.ZipFile(tmp / zs[0]) as z:
                if len(z.namelist()) != 1:
                    raise Violation(f"zip members {z.namelist()}")
        try:
            back, com = csv.read_csv(fname)
        except Exception as e:
            raise Violation(f"file written as {fname.name} (compress="
                            f"{compress}) cannot be read back: "
                            f"{type(e).__name__}: {e}")
        # the same path used again in the same process, now for a plain file
        # with other content (the compressed file removed or left in place)
        if compress and not fname.name.lower().endswith(".zip"):
            df2 = pd.DataFrame({"second": [7.25, 8.5, -1.75]})
            if len(case["iperm"]) % 2 == 0:
                for z_ in tmp.glob("*.zip"):
                    z_.unlink()
            csv.write_csv(df2, fname, {"which": "second frame"}, src,
                          compress=False, **kw)
            try:
                b2, c2 = csv.read_csv(fname)
            except Exception as e:
                raise Violation(
                    f"{fname.name} written compressed, read, then written "
                    f"as a plain file: the second read raises "
                    f"{type(e).__name__}: {e}")
            if list(b2.columns) != ["second"] or \
                    b2["second"].tolist() != [7.25, 8.5, -1.75] or \
                    c2.get("which") != "second frame":
                raise Violation(
                    f"{fname.name} written compressed, read, then written "
                    f"as a plain file: the second read returns columns "
                    f"{list(b2.columns)} and comment 'which' = "
                    f"{c2.get('which')!r}")
            labels.append("same-path-reused-in-another-mode")

    # ---- data
    if list(back.columns) != case["names"]:
        raise Violation(f"column names {list(back.columns)} != "
                        f"{case['names']}")
    if len(back) != len(df):
        raise Violation(f"{len(back)} rows read, {len(df)} written")
    nt = mode.startswith("zip") or mode == "archive"
    for name, c in zip(case["names"], case["cols"]):
        got = back[name]
        if c["kind"] == "text":
            g = [None if (isinstance(x, float) and math.isnan(x)) else str(x)
                 for x in got.tolist()]
            if g != c["values"]:
                i = next(k for k in range(len(g)) if g[k] != c["values"][k])
                raise Violation(f"text column {name!r} row {i}: wrote "
                                f"{c['values'][i]!r}, read {g[i]!r}")
            if any(ch in t for t in c["values"] for ch in ',"\''):
                nt = True
                labels.append("text:separator-or-quote")
        elif c["kind"] == "int":
            try:
                g = [int(x) for x in got.tolist()]
            except (TypeError, ValueError):
                raise Violation(f"integer column {name!r} read as "
                                f"{got.tolist()[:5]}")
            if g != c["values"] or any(float(x) != int(x) for x in
                                       got.tolist()):
                raise Violation(f"integer column {name!r}: wrote "
                                f"{c['values'][:5]}, read {g[:5]}")
        else:
            try:
                g = np.asarray(got, dtype=np.float64)
            except (TypeError, ValueError):
                raise Violation(f"float column {name!r} read as "
                                f"{got.tolist()[:5]}")
            for i, (w, r) in enumerate(zip(c["values"], g)):
                if math.isnan(w):
                    if not math.isnan(r):
                        raise Violation(f"NaN read back as {r!r}")
                    continue
                if not abs(r - w) <= float_tol(case["fmt"], w):
                    raise Violation(
                        f"float column {name!r} row {i}: wrote {w!r} with "
                        f"{case['fmt']}, read {r!r}")

    # ---- comments
    for k, v in case["comment"].items():
        if com.get(k) != v:
            raise Violation(f"comment {k!r}: wrote {v!r}, read "
                            f"{com.get(k)!r}")
        if ":" in v:
            nt = True
            labels.append("comment:colon")
    if case.get("author") is not None and \
            com.get("author") != case["author"]:
        raise Violation(f"author given as {case['author']!r}, read back "
                        f"{com.get('author')!r}")
    if com.get("nrow") != str(len(df)) or com.get("ncol") != str(df.shape[1]):
        raise Violation(f"nrow/ncol recorded as {com.get('nrow')!r}/"
                        f"{com.get('ncol')!r} for shape {df.shape}")
    return {"nt": nt, "labels": sorted(set(labels))}


SUBS = [
    Sub("C09.roundtrip", oracle, strategy=cases, n=(300, 4000),
        shards=(16, 16)),
]
