"""Runner for the property checks (see DESIGN.md section 2).

A property module (vf/props/cXX.py) exposes

    PROPERTY = "C03"
    RULE     = "<how cases are generated and what makes one non trivial>"
    SUBS     = [Sub(...), ...]
    KNOWN    = {"predicate name": fn(case, message) -> bool}   (optional)

Each Sub is one oracle relation on one family of generated inputs.  The same
oracle function is called from the Hypothesis search, from the exhaustive
enumerators and from --replay.
"""
import hashlib
import importlib
import json
import math
import multiprocessing as mp
import os
import sys
import time
import traceback
from collections import Counter
from pathlib import Path

VERIF = Path(__file__).resolve().parent.parent
OUT = VERIF / "out"
# runs against a scratch copy of the repository (sensitivity tests) must not
# overwrite the evidence of the real tree
EVIDENCE = VERIF / "evidence" if not os.environ.get("VF_REPO") \
    else OUT / "evidence_scratch"
REGRESSIONS = VERIF / "regressions"
KNOWN_FILE = VERIF / "known_findings.json"


class Violation(Exception):
    """The property does not hold for the case at hand."""


class Skip(Exception):
    """The generated case is outside the domain of the property
    (counted; generators are built so that this is rare)."""


class _Stop(BaseException):
    """Internal: abandon the search (budget) - passes through Hypothesis."""


# --------------------------------------------------------------------------
class Sub:
    """One sub-check.

    name       : "<PROP>.<relation>.<family>"
    oracle     : fn(case) -> None | {"nt": bool, "labels": [str]} ; raises
                 Violation / Skip
    strategy   : fn(tier) -> hypothesis strategy of JSON-able cases
    enumerate  : fn(tier) -> iterable of JSON-able cases (finite sub-space,
                 fully enumerated, seed independent)
    machine    : fn(tier) -> (RuleBasedStateMachine subclass, get_log) for
                 stateful search; the log of operations is the case
    n          : (quick, thorough) number of Hypothesis examples per shard
    shards     : (quick, thorough) number of independently seeded shards
    """

    def __init__(self, name, oracle, strategy=None, enumerate=None,
                 machine=None, n=(200, 5000), shards=(1, 8),
                 steps=(30, 50), budget=(150, 3000), bucket=None,
                 rounds=(4, 8), stall_s=None):
        # stall_s: a call that has not come back after this many seconds is
        # taken for a hang: the worker is killed and the case it was
        # evaluating goes through the crash pipeline (replayed in a fresh
        # process under the same limit). Default STALL_S; sub-checks whose
        # cases are all small set a short limit.
        self.stall_s = stall_s
        # bucket: fn(message) -> root-cause key. When given, a search that
        # found a failure is repeated with that bucket excluded (counted),
        # so that one shallow defect does not hide the others.
        self.bucket = bucket
        self.rounds = rounds
        self.name = name
        self.oracle = oracle
        self.strategy = strategy
        self.enumerate = enumerate
        self.machine = machine
        self.n = n
        self.shards = shards
        self.steps = steps
        self.budget = budget

    def kind(self):
        if self.enumerate is not None:
            return "exhaustive"
        if self.machine is not None:
            return "stateful"
        return "hypothesis"


# --------------------------------------------------------------------------
def canon(case):
    return json.dumps(case, sort_keys=True, allow_nan=True,
                      separators=(",", ":"))


def digest(case):
    return int.from_bytes(
        hashlib.blake2b(canon(case).encode(), digest_size=8).digest(), "big")


_PROCESS_TZ = ["UTC", "UTC", "EST5", "AEST-10", "NST3:30"]


def _seed_global_rng(case):
    """Code under test that draws from numpy's global generator without being
    seeded by the oracle sees a stream that depends on the case only, so a
    saved case replays identically in a fresh process."""
    import numpy as np
    np.random.seed(digest(case) & 0xFFFFFFFF)
    # ... and the processor's floating-point status flags are in the state
    # any caller may leave them in (invalid operation raised by earlier,
    # unrelated arithmetic): they are sticky and process-wide
    _ = float("inf") - float("inf")
    # ... and the process runs in one of a few local time zones (POSIX TZ
    # strings, no tz database needed): nothing in the properties depends on
    # the time zone of the machine
    import time
    os.environ["TZ"] = _PROCESS_TZ[(digest(case) >> 32) % len(_PROCESS_TZ)]
    time.tzset()


def derive_seed(base, name, shard):
    h = hashlib.blake2b(f"{base}|{name}|{shard}".encode(),
                        digest_size=8).digest()
    return int.from_bytes(h, "big") % (2**63)


def from_code_under_test(exc):
    """True when the traceback of exc passes through the hydrodiy package
    (or its compiled modules)."""
    tb = exc.__traceback__
    while tb is not None:
        fn = tb.tb_frame.f_code.co_filename
        if "/hydrodiy/" in fn or "c_hydrodiy" in fn:
            return True
        tb = tb.tb_next
    return False


def clean(obj):
    """Strict-JSON version of a case (non finite floats as strings)."""
    if isinstance(obj, float):
        if math.isnan(obj) or math.isinf(obj):
            return repr(obj)
        return obj
    if isinstance(obj, dict):
        return {str(k): clean(v) for k, v in obj.items()}
    if isinstance(obj, (list, tuple)):
        return [clean(v) for v in obj]
    return obj


def abbreviate(obj, maxlen=1500):
    s = canon(obj)
    if len(s) <= maxlen:
        return clean(obj)
    return {"abbreviated": s[:maxlen] + "...", "json_length": len(s)}


class Recorder:
    """Wraps the oracle of a sub-check: counts, classifies, keeps samples
    and failing cases."""

    NSAMPLES = 3
    HISTORY_BYTES = 40_000_000

    def __init__(self, sub, known, budget_s, shrink_s, casefd=None):
        self.casefd = casefd        # last case under evaluation (crashes)
        self.sub = sub
        self.known = known          # list of (what, predicate)
        self.evaluations = 0
        self.skipped = 0
        self.nt = set()
        self.labels = Counter()
        self.samples = {}           # digest -> case (smallest digests kept)
        self.failures = []          # (size, case, message)
        self.known_hits = Counter()
        self.t0 = time.time()
        self.tfail = None
        self.excluded = set()       # root-cause buckets already reported
        # cases evaluated before the first failure (serialised; bounded):
        # used when a failing case only fails after earlier calls made in
        # the same process (state kept by the code under test)
        self.history = []
        self.history_bytes = 0
        self.budget_s = budget_s
        self.shrink_s = shrink_s
        self.status = "ok"

    def call(self, case, search=True):
        now = time.time()
        if search:
            if self.tfail is not None and now - self.tfail > self.shrink_s:
                raise _Stop("shrink budget")
            if self.tfail is None and now - self.t0 > self.budget_s:
                self.status = "inconclusive"
                raise _Stop("budget")
        self.evaluations += 1
        keep = self.tfail is None and self.history_bytes < self.HISTORY_BYTES
        if self.casefd is not None or keep:
            text = json.dumps(case, allow_nan=True)
            if self.casefd is not None:
                data = text.encode()
                os.pwrite(self.casefd, data, 0)
                os.ftruncate(self.casefd, len(data))
            if keep:
                self.history.append(text)
                self.history_bytes += len(text)
        _seed_global_rng(case)
        try:
            info = self.sub.oracle(case)
        except Skip:
            self.skipped += 1
            self.labels["skipped"] += 1
            return
        except Violation as v:
            if self._fail(case, str(v)):
                raise
            return
        except _Stop:
            raise
        except Exception as e:
            if from_code_under_test(e):
                msg = ("unexpected exception from the code under test: "
                       f"{type(e).__name__}: {e}")
                if self._fail(case, msg):
                    raise Violation(msg) from e
                return
            raise
        if info:
            for lab in info.get("labels", ()):
                self.labels[lab] += 1
            if info.get("nt"):
                d = digest(case)
                self.labels["nontrivial"] += 1
                if d not in self.nt:
                    self.nt.add(d)
                    self._sample(d, case)

    # -- stateful machines: the log of operations is the case
    def machine_begin(self, case):
        now = time.time()
        if self.tfail is not None and now - self.tfail > self.shrink_s:
            raise _Stop("shrink budget")
        if self.tfail is None and now - self.t0 > self.budget_s:
            self.status = "inconclusive"
            raise _Stop("budget")

    def machine_end(self, case, info):
        self.evaluations += 1
        for lab in info.get("labels", ()):
            self.labels[lab] += 1
        if info.get("nt"):
            d = digest(case)
            self.labels["nontrivial"] += 1
            if d not in self.nt:
                self.nt.add(d)
                self._sample(d, case)

    def machine_failure(self, case, msg):
        if self.casefd is not None:
            data = json.dumps(case, allow_nan=True).encode()
            os.pwrite(self.casefd, data, 0)
            os.ftruncate(self.casefd, len(data))
        return self._fail(json.loads(json.dumps(case, allow_nan=True)), msg)

    def _sample(self, d, case):
        if len(self.samples) < self.NSAMPLES:
            self.samples[d] = case
        else:
            m = max(self.samples)
            if d < m:
                del self.samples[m]
                self.samples[d] = case

    def _fail(self, case, msg):
        """Record a failing case. Returns False when it is a listed known
        finding (the search then goes on)."""
        for what, pred in self.known:
            try:
                hit = pred(case, msg)
            except Exception:
                hit = False
            if hit:
                self.known_hits[what] += 1
                return False
        if self.sub.bucket is not None and \
                self.sub.bucket(msg) in self.excluded:
            self.labels["excluded:" + self.sub.bucket(msg)] += 1
            return False
        if self.tfail is None:
            self.tfail = time.time()
        self.failures.append((len(canon(case)), case, msg))
        return True

    def minimal_failure(self):
        if not self.failures:
            return None
        # Hypothesis replays its minimal example last; take the smallest
        # serialisation among everything that failed to be safe.
        size, case, msg = min(self.failures, key=lambda f: f[0])
        return case, msg

    def smallest_failures(self, k=5):
        """Up to k smallest distinct failing cases per root-cause bucket."""
        seen, out, per = set(), [], Counter()
        for size, case, msg in sorted(self.failures, key=lambda f: f[0]):
            c = canon(case)
            b = self.sub.bucket(msg) if self.sub.bucket else ""
            if c in seen or per[b] >= k:
                continue
            seen.add(c)
            per[b] += 1
            out.append((case, msg))
        return out

    def result(self, shard):
        return {
            "sub": self.sub.name, "shard": shard, "kind": self.sub.kind(),
            "evaluations": self.evaluations, "skipped": self.skipped,
            "nt": self.nt, "labels": dict(self.labels),
            "samples": list(self.samples.values()),
            "failure": self.minimal_failure(),
            "failures": self.smallest_failures(),
            "nfailing": len(self.failures),
            # (the first failing case is the last entry: it may be the one
            # that changes the state)
            "history": self.history if self.failures else [],
            "known_hits": dict(self.known_hits),
            "status": self.status, "wall_s": round(time.time() - self.t0, 2),
        }


# --------------------------------------------------------------------------
def _known_for(module, subname):
    """Open known findings applying to this sub-check."""
    out = []
    if not KNOWN_FILE.exists():
        return out
    preds = getattr(module, "KNOWN", {})
    for f in json.loads(KNOWN_FILE.read_text()).get("findings", []):
        if f.get("status") != "open" or f.get("property") != module.PROPERTY:
            continue
        if f.get("subcheck") not in (None, subname):
            continue
        pred = preds.get(f.get("predicate"))
        if pred is None:
            continue
        out.append((f["what"], pred))
    return out


def run_task(args, casefd=None):
    """Run one (sub-check, shard) in a worker process."""
    modname, subname, shard, nshards, tier, base_seed = args
    import importlib
    module = importlib.import_module(modname)
    sub = next(s for s in module.SUBS if s.name == subname)
    ti = 0 if tier == "quick" else 1
    rec = Recorder(sub, _known_for(module, subname), sub.budget[ti],
                   20 if tier == "quick" else 120, casefd=casefd)
    seed = derive_seed(base_seed, subname, shard)
    try:
        if sub.enumerate is not None:
            _run_enum(sub, rec, tier, shard, nshards)
        elif sub.machine is not None:
            _run_machine(sub, rec, tier, seed, sub.n[ti], sub.steps[ti])
        else:
            nrounds = sub.rounds[ti] if sub.bucket is not None else 1
            _first_use(sub, rec, tier, seed)
            for rnd in range(nrounds):
                nfail = len(rec.failures)
                try:
                    _run_hypothesis(sub, rec, tier,
                                    derive_seed(seed, "round", rnd)
                                    if rnd else seed, sub.n[ti])
                except Violation:
                    pass
                except _Stop:
                    if rec.status == "inconclusive":
                        raise
                if len(rec.failures) == nfail:
                    break
                # exclude the buckets found so far and search again
                for _, _, msg in rec.failures:
                    rec.excluded.add(sub.bucket(msg))
                rec.tfail = None
    except _Stop:
        pass
    except Violation as v:
        if not rec.failures and not rec.known_hits:
            # raised outside the recorder (a harness path that does not
            # record its failing case): never a silent pass
            res = rec.result(shard)
            res["status"] = "error"
            res["error"] = ("Violation raised but no failing case was "
                            f"recorded: {v}")[:3000]
            return res
    except Exception as e:
        res = rec.result(shard)
        if rec.failures:
            # e.g. hypothesis Flaky after a recorded failure: the recorded
            # failing case stands, the replay decides
            res["note"] = f"{type(e).__name__}: {e}"[:500]
            return res
        res["status"] = "error"
        res["error"] = traceback.format_exc()[-3000:]
        return res
    return rec.result(shard)


def _settings(n, steps=None):
    from hypothesis import settings, HealthCheck, Phase, Verbosity
    kw = dict(max_examples=n, deadline=None, database=None,
              derandomize=False, report_multiple_bugs=False,
              print_blob=False, verbosity=Verbosity.quiet,
              phases=(Phase.generate, Phase.shrink),
              suppress_health_check=[HealthCheck.too_slow,
                                     HealthCheck.data_too_large,
                                     HealthCheck.large_base_example])
    if steps is not None:
        kw["stateful_step_count"] = steps
    return settings(**kw)


def _run_hypothesis(sub, rec, tier, seed, n):
    import hypothesis
    from hypothesis import given

    @hypothesis.seed(seed)
    @_settings(n)
    @given(sub.strategy(tier))
    def test(case):
        rec.call(case)

    test()


def _first_use(sub, rec, tier, seed):
    """The first oracle call of a worker is the first use of the code under
    test in that process (module-level and static state still untouched).
    Hypothesis always starts with the simplest case, so a few cases are
    drawn without being evaluated and the last of them is evaluated first:
    every shard of every sub-check starts on a different ordinary case."""
    import hypothesis
    from hypothesis import given
    drawn = []

    @hypothesis.seed(derive_seed(seed, "first-use", 0))
    @_settings(6 + seed % 7)
    @given(sub.strategy(tier))
    def collect(case):
        drawn.append(case)

    collect()
    if drawn:
        try:
            rec.call(drawn[-1])
        except Violation:
            pass        # recorded; the search below goes on
        except _Stop:
            pass


def _run_enum(sub, rec, tier, shard, nshards):
    for i, case in enumerate(sub.enumerate(tier)):
        if i % nshards != shard:
            continue
        try:
            rec.call(case)
        except Violation:
            # exhaustive spaces go on: the smallest failing case is kept
            if len(rec.failures) >= 50:
                return


def _run_machine(sub, rec, tier, seed, n, steps):
    import hypothesis
    from hypothesis.stateful import run_state_machine_as_test
    machine_cls = sub.machine(tier, rec)
    run_state_machine_as_test(hypothesis.seed(seed)(machine_cls),
                              settings=_settings(n, steps))


# --------------------------------------------------------------------------
# Crash-robust execution: every task (and every confirmation replay) runs in
# a forked child; a child killed by a signal (segfault, SIGFPE in a kernel)
# is a result, not a hang.
def _child_setup():
    # kernels print progress on C stdout; verdict lines come from the parent
    dn = os.open(os.devnull, os.O_WRONLY)
    os.dup2(dn, 1)


def _describe_status(status):
    if os.WIFSIGNALED(status):
        import signal
        sig = os.WTERMSIG(status)
        try:
            name = signal.Signals(sig).name
        except ValueError:
            name = str(sig)
        return f"killed by signal {name}"
    return f"exited with status {os.WEXITSTATUS(status)}"


def isolated(fn, timeout=600):
    """Run fn() in a forked child. Returns ("ok", value) | ("crash", text)
    | ("raised", traceback text)."""
    import pickle
    tmpdir = OUT / "tmp"
    tmpdir.mkdir(parents=True, exist_ok=True)
    resfile = tmpdir / f"iso-{os.getpid()}-{time.time_ns()}.res"
    sys.stdout.flush()
    sys.stderr.flush()
    pid = os.fork()
    if pid == 0:
        code = 0
        try:
            _child_setup()
            try:
                out = ("ok", fn())
            except BaseException:
                out = ("raised", traceback.format_exc()[-3000:])
            resfile.write_bytes(pickle.dumps(out))
        except BaseException:
            code = 3
        finally:
            os._exit(code)
    t0 = time.time()
    while True:
        wpid, status = os.waitpid(pid, os.WNOHANG)
        if wpid == pid:
            break
        if time.time() - t0 > timeout:
            os.kill(pid, 9)
            os.waitpid(pid, 0)
            return ("crash", f"no answer within {timeout} s")
        time.sleep(0.005)
    try:
        if os.WIFEXITED(status) and os.WEXITSTATUS(status) == 0 \
                and resfile.exists():
            return pickle.loads(resfile.read_bytes())
        return ("crash", _describe_status(status))
    finally:
        if resfile.exists():
            resfile.unlink()


# no single case of any sub-check takes anywhere near this long, even on a
# loaded machine (the largest enumerated cases take a few minutes)
STALL_S = float(os.environ.get("VF_STALL_S", "2400"))


def _stall_limit(modname, subname):
    if "VF_STALL_S" in os.environ:
        return STALL_S
    try:
        mod = sys.modules.get(modname) or importlib.import_module(modname)
        sub = next(s for s in mod.SUBS if s.name == subname)
        return float(sub.stall_s) if sub.stall_s else STALL_S
    except Exception:
        return STALL_S


def run_tasks(tasks, nproc):
    """Run tasks in forked children, at most nproc at a time. A child that
    makes no progress (its last-case file is not rewritten) for longer than
    the sub-check's stall limit is killed and reported like a crash on the
    case it was evaluating."""
    import pickle
    tmpdir = OUT / "tmp"
    tmpdir.mkdir(parents=True, exist_ok=True)
    pending = list(tasks)
    running = {}
    results = []
    sys.stdout.flush()
    sys.stderr.flush()
    k = 0
    while pending or running:
        while pending and len(running) < nproc:
            t = pending.pop(0)
            k += 1
            base = tmpdir / f"task-{os.getpid()}-{k}"
            resfile, casefile = Path(f"{base}.res"), Path(f"{base}.case")
            pid = os.fork()
            if pid == 0:
                code = 0
                try:
                    _child_setup()
                    fd = os.open(casefile, os.O_RDWR | os.O_CREAT | os.O_TRUNC)
                    res = run_task(t, casefd=fd)
                    resfile.write_bytes(pickle.dumps(res))
                except BaseException:
                    try:
                        resfile.write_bytes(pickle.dumps({
                            "sub": t[1], "shard": t[2], "kind": "?",
                            "evaluations": 0, "skipped": 0, "nt": set(),
                            "labels": {}, "samples": [], "failure": None,
                            "nfailing": 0, "known_hits": {},
                            "status": "error", "wall_s": 0.0,
                            "error": traceback.format_exc()[-3000:]}))
                    except BaseException:
                        code = 3
                finally:
                    os._exit(code)
            running[pid] = (t, resfile, casefile, time.time())
        pid, status = os.waitpid(-1, os.WNOHANG)
        stalled = None
        if pid == 0:
            now = time.time()
            for p_, (t_, _r, cf_, ts_) in running.items():
                try:
                    last = max(ts_, cf_.stat().st_mtime)
                except OSError:
                    last = ts_
                lim = _stall_limit(t_[0], t_[1])
                if now - last > lim:
                    stalled = (p_, lim)
                    break
            if stalled is None:
                time.sleep(0.05)
                continue
            pid = stalled[0]
            try:
                os.kill(pid, 9)
            except OSError:
                pass
            _, status = os.waitpid(pid, 0)
        if pid not in running:
            continue
        t, resfile, casefile, tstart = running.pop(pid)
        if stalled is None and os.WIFEXITED(status) \
                and os.WEXITSTATUS(status) == 0 and resfile.exists():
            results.append(pickle.loads(resfile.read_bytes()))
        else:
            last = None
            try:
                last = json.loads(casefile.read_text())
            except Exception:
                pass
            results.append({
                "sub": t[1], "shard": t[2], "kind": "?", "evaluations": 0,
                "skipped": 0, "nt": set(), "labels": {}, "samples": [],
                "failure": None, "nfailing": 0, "known_hits": {},
                "status": "crash",
                "crash": (_describe_status(status) if stalled is None else
                          f"killed after {stalled[1]:.0f} s without an "
                          "answer (the call did not return)"),
                "lastcase": last, "wall_s": round(time.time() - tstart, 2)})
        for f in (resfile, casefile):
            if f.exists():
                f.unlink()
    return results


def minimise_history(module, subname, history, case, max_trials=80):
    """The case fails after `history` but not alone: reduce the history
    (delta debugging, every trial in a fresh process). Returns (history,
    message) or None when the failure does not reproduce."""
    msg = replay_isolated(module, subname, case, history)
    if msg is None:
        return None
    trials, n = 0, 2

    def fails(cand):
        nonlocal trials
        trials += 1
        return replay_isolated(module, subname, case, cand)

    while len(history) >= 2 and trials < max_trials:
        size = -(-len(history) // n)
        chunks = [history[i:i + size] for i in range(0, len(history), size)]
        found = False
        for ch in chunks:
            if trials >= max_trials:
                break
            m = fails(ch)
            if m is not None:
                history, msg, n, found = ch, m, 2, True
                break
        if not found and len(chunks) > 2:
            for i in range(len(chunks)):
                if trials >= max_trials:
                    break
                comp = [h for j, c in enumerate(chunks) if j != i for h in c]
                m = fails(comp)
                if m is not None:
                    history, msg, n, found = comp, m, max(n - 1, 2), True
                    break
        if not found:
            if n >= len(history):
                break
            n = min(len(history), n * 2)
    return history, msg


def replay_isolated(module, subname, case, history=()):
    """replay_case in a forked child: returns None (holds), a message
    (violation) or raises RuntimeError (harness problem)."""
    kind, val = isolated(lambda: replay_case(module, subname, case, history),
                         timeout=_stall_limit(module.__name__, subname))
    if kind == "ok":
        return val
    if kind == "crash":
        if val.startswith("no answer"):
            return ("the call did not return: " + val + " in a fresh process "
                    "evaluating only this case (hang)")
        return f"the interpreter process was {val} while evaluating the case"
    raise RuntimeError(val)


def replay_case(module, subname, case, history=()):
    """Run the oracle once on a saved case (after the saved earlier cases,
    whose own outcome is ignored). Returns None or the message."""
    sub = next((s for s in module.SUBS if s.name == subname), None)
    if sub is None:
        raise KeyError(f"unknown sub-check {subname}")
    for h in history:
        h = json.loads(h) if isinstance(h, str) else h
        _seed_global_rng(h)
        try:
            sub.oracle(h)
        except Exception:
            pass
    _seed_global_rng(case)
    try:
        sub.oracle(case)
    except Skip:
        return None
    except Violation as v:
        return str(v)
    except Exception as e:
        if from_code_under_test(e):
            return ("unexpected exception from the code under test: "
                    f"{type(e).__name__}: {e}")
        raise
    return None


def write_replay(prop, subname, case, msg, history=()):
    d = OUT / "replay" / prop
    d.mkdir(parents=True, exist_ok=True)
    f = d / f"{subname}-{digest(case):016x}.json"
    rec = {"property": prop, "subcheck": subname, "message": msg,
           "case": case}
    if history:
        # earlier cases evaluated in the same process, in order
        rec["history"] = [json.loads(h) if isinstance(h, str) else h
                          for h in history]
    f.write_text(json.dumps(rec, allow_nan=True, indent=1))
    return f


def run_property(module, tier, base_seed, build_info, nproc=None,
                 only=None):
    """Run every sub-check of a property. Returns the exit code."""
    t0 = time.time()
    prop = module.PROPERTY
    ti = 0 if tier == "quick" else 1
    nproc = nproc or min(16, os.cpu_count() or 1)
    violations = []        # (subname, case, msg)
    histories = {}         # (subname, failing case) -> cases evaluated
    #                        before it in its own worker
    known_lines = Counter()
    errors = []

    # 1. regression inputs (seconds-long replay tier)
    nreg = 0
    regdir = REGRESSIONS / prop
    open_known = {}
    if regdir.exists():
        for f in sorted(regdir.glob("*.json")):
            r = json.loads(f.read_text())
            if only and r["subcheck"] not in only:
                continue
            nreg += 1
            msg = replay_isolated(module, r["subcheck"], r["case"],
                                  r.get("history", ()))
            if msg is not None:
                hit = None
                for what, pred in _known_for(module, r["subcheck"]):
                    if pred(r["case"], msg):
                        hit = what
                if hit:
                    known_lines[hit] += 1
                else:
                    violations.append((r["subcheck"], r["case"],
                                       f"[regression {f.name}] {msg}"))

    # 2. generated search
    tasks = []
    for sub in module.SUBS:
        if only and sub.name not in only:
            continue
        nsh = sub.shards[ti]
        if sub.enumerate is not None:
            nsh = max(nsh, 1)
        for sh in range(nsh):
            tasks.append((module.__name__, sub.name, sh, nsh, tier,
                          base_seed))
    results = []
    if tasks:
        results = run_tasks(tasks, nproc)

    # 3. merge
    per_sub = {}
    for r in sorted(results, key=lambda r: (r["sub"], r["shard"])):
        s = per_sub.setdefault(r["sub"], {
            "kind": r["kind"], "evaluations": 0, "skipped": 0,
            "nt": set(), "labels": Counter(), "samples": [],
            "status": "ok", "shards": 0, "wall_s": 0.0})
        s["shards"] += 1
        s["evaluations"] += r["evaluations"]
        s["skipped"] += r["skipped"]
        s["nt"] |= r["nt"]
        s["labels"].update(r["labels"])
        s["wall_s"] = max(s["wall_s"], r["wall_s"])
        if len(s["samples"]) < 3:
            s["samples"].extend(r["samples"][:3 - len(s["samples"])])
        for what, k in r.get("known_hits", {}).items():
            known_lines[what] += k
        if r["status"] == "error":
            s["status"] = "error"
            errors.append((r["sub"], r.get("error", "")))
        elif r["status"] == "crash":
            if r.get("lastcase") is not None:
                s["status"] = "violation"
                violations.append((r["sub"], r["lastcase"],
                                   "interpreter " + r["crash"]))
            else:
                s["status"] = "error"
                errors.append((r["sub"], "worker " + r["crash"]
                               + " before any case"))
        elif r["failure"] is not None:
            s["status"] = "violation"
            for case, msg in r.get("failures") or [r["failure"]]:
                violations.append((r["sub"], case, msg))
                if r.get("history"):
                    histories[(r["sub"], canon(case))] = r["history"]
        elif r["status"] == "inconclusive" and s["status"] == "ok":
            s["status"] = "inconclusive"

    # one violation line per sub-check: the smallest failing case that
    # reproduces outside Hypothesis, in a fresh process
    cands = {}
    subs_by_name = {s_.name: s_ for s_ in module.SUBS}
    for subname, case, msg in violations:
        sb = subs_by_name.get(subname)
        b = sb.bucket(msg) if sb is not None and sb.bucket else ""
        cands.setdefault((subname, b), []).append(
            (len(canon(case)), case, msg))

    # listed known findings are announced on every run
    if KNOWN_FILE.exists():
        for f in json.loads(KNOWN_FILE.read_text()).get("findings", []):
            if f.get("status") == "open" and f.get("property") == prop:
                print(f"KNOWN-FINDING: property={prop} {f['what']}"
                      f" (seen {known_lines.get(f['what'], 0)}x this run)")

    nviol = 0
    for (subname, _bk), lst in sorted(cands.items()):
        lst.sort(key=lambda c: c[0])
        confirmed, case, msg = None, None, ""
        tried = set()
        for k, case, msg in lst:
            if canon(case) in tried or len(tried) >= 12:
                continue
            tried.add(canon(case))
            try:
                confirmed = replay_isolated(module, subname, case)
            except Exception as e:
                confirmed = None
                errors.append((subname, f"replay raised {e!r}"))
            if confirmed is not None:
                break
        hist = ()
        if confirmed is None:
            # the failing cases hold in a fresh process: do they fail after
            # the cases evaluated before them in their worker (state kept
            # between calls by the code under test)?
            ntry = 0
            seen_h = set()
            for k, case_h, msg_h in lst:
                h = histories.get((subname, canon(case_h)))
                if not h or canon(case_h) in seen_h or ntry >= 6:
                    continue
                seen_h.add(canon(case_h))
                ntry += 1
                try:
                    red = minimise_history(module, subname, h, case_h)
                except Exception as e:
                    red = None
                    errors.append((subname, f"history replay raised {e!r}"))
                if red is not None:
                    hist, confirmed = red
                    case = case_h
                    confirmed = (f"[only after {len(hist)} earlier call(s) "
                                 "in the same process, saved as 'history'] "
                                 + confirmed)
                    break
        if confirmed is None:
            # nothing reproduced from the saved inputs: not reported as a
            # violation (state leak / flakiness is a harness matter)
            errors.append((subname, f"{len(tried)} failing case(s) did not "
                           "reproduce on replay: " + msg[:300]))
            per_sub[subname]["status"] = "error" if subname in per_sub \
                else "error"
            continue
        path = write_replay(prop, subname, case, confirmed, hist)
        nviol += 1
        print(f"VIOLATION property={prop} replay={path}")
        print(f"  sub-check {subname}: {confirmed[:600]}")

    # 4. evidence
    evaluations = nreg + sum(s["evaluations"] for s in per_sub.values())
    nt_total = sum(len(s["nt"]) for s in per_sub.values())
    samples = []
    for name, s in per_sub.items():
        for c in s["samples"][:2]:
            samples.append({"subcheck": name, "case": abbreviate(c)})
    exhaustive = bool(per_sub) and all(s["kind"] == "exhaustive"
                                       for s in per_sub.values())
    ev = {
        "property_id": prop, "tier": tier, "seed": int(base_seed),
        "level": "exploration",
        "coverage": {
            "evaluations": int(evaluations),
            "distinct_nontrivial": int(nt_total),
            "rule": module.RULE,
            "samples": samples[:40],
            "exhaustive": exhaustive,
            "regression_inputs_replayed": nreg,
            "subchecks": {
                name: {"kind": s["kind"], "status": s["status"],
                       "evaluations": s["evaluations"],
                       "distinct_nontrivial": len(s["nt"]),
                       "skipped_outside_domain": s["skipped"],
                       "shards": s["shards"], "wall_s": s["wall_s"],
                       "classes": dict(sorted(s["labels"].items()))}
                for name, s in sorted(per_sub.items())},
            "known_findings_seen": dict(known_lines),
            "harness_errors": [f"{a}: {b[-400:]}" for a, b in errors],
        },
        "assumptions": list(getattr(module, "ASSUMPTIONS", [])) + [
            "extensions rebuilt from /repo working tree kernels with "
            + build_info.get("flags", "?") + "; source hash "
            + build_info.get("hash", "?"),
            "Cython wrapper C taken from the vendored copy generated from "
            "the pinned .pyx (Cython is not installed); pyx_stale="
            + json.dumps(build_info.get("pyx_stale", {})),
            "absence of violations is only established for the generated "
            "and enumerated cases",
        ],
        "wall_s": round(time.time() - t0, 2),
        "violations": nviol,
    }
    EVIDENCE.mkdir(parents=True, exist_ok=True)
    (EVIDENCE / f"{prop}.json").write_text(
        json.dumps(ev, indent=1, allow_nan=False, default=_jsonable))

    # 5. verdict
    summary = (f"{prop} {tier} seed={base_seed}: {evaluations} evaluations, "
               f"{nt_total} distinct non-trivial, {len(per_sub)} sub-checks, "
               f"{nviol} violations, {len(errors)} harness errors, "
               f"{ev['wall_s']} s")
    print(summary)
    for name, s in sorted(per_sub.items()):
        if s["status"] != "ok":
            print(f"  {name}: {s['status']}")
    if nviol:
        return 1
    if errors:
        for a, b in errors:
            print(f"HARNESS-ERROR {a}:\n{b}", file=sys.stderr)
        return 2
    return 0


def _jsonable(o):
    if isinstance(o, float) and (math.isnan(o) or math.isinf(o)):
        return str(o)
    if isinstance(o, (set, frozenset)):
        return sorted(o)
    return str(o)
