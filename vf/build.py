"""Rebuild the three hydrodiy extension modules from /repo's working tree.

The Cython compiler is not available in the sandbox: the extension is
assembled from the hand written C kernels of the working tree plus the
Cython generated wrapper (taken from the working tree when present and not
older than its .pyx, otherwise from the copy vendored in
/verif/vendor/cython_c).

Two flavours:
  norm : gcc -O2                      (functional properties)
  asan : clang ASan + UBSan           (C05)

Build output goes to /verif/.build/<hash>/<mode>/ (git-ignored).
"""
import gzip
import hashlib
import json
import os
import shutil
import subprocess
import sys
import sysconfig
import time
from pathlib import Path

VERIF = Path(__file__).resolve().parent.parent
REPO = Path(os.environ.get("VF_REPO", "/repo"))
SRC = REPO / "src" / "hydrodiy"
VENDOR = VERIF / "vendor" / "cython_c"
BUILDROOT = VERIF / ".build"

MODULES = {
    "data": ["c_dateutils.c", "c_qualitycontrol.c", "c_dutils.c",
             "c_var2h.c", "c_baseflow.c"],
    "stat": ["c_crps.c", "c_dscore.c", "c_olsleverage.c", "c_armodels.c",
             "ADinf.c", "AnDarl.c", "c_andersondarling.c",
             "c_paretofront.c"],
    "gis": ["c_grid.c", "c_catchment.c", "c_points_inside_polygon.c"],
}

FLAGS = {
    "norm": ["gcc", "-O2", "-g0", "-fno-strict-overflow"],
    "asan": ["clang", "-O1", "-g", "-fno-omit-frame-pointer",
             "-fsanitize=address,undefined",
             "-fno-sanitize-recover=undefined", "-shared-libasan"],
}


class BuildError(Exception):
    pass


def sha256(path):
    return hashlib.sha256(Path(path).read_bytes()).hexdigest()


def vendored_meta():
    return json.loads((VENDOR / "META.json").read_text())


def source_hash(mode):
    h = hashlib.sha256()
    h.update(" ".join(FLAGS[mode]).encode())
    for pkg in sorted(MODULES):
        d = SRC / pkg
        for f in sorted(d.iterdir()):
            if f.suffix in (".c", ".h", ".pyx"):
                h.update(f.name.encode())
                h.update(f.read_bytes())
    return h.hexdigest()[:16]


def wrapper_source(pkg, workdir):
    """Return (path of the Cython generated C file to use, stale flag)."""
    pyx = SRC / pkg / f"c_hydrodiy_{pkg}.pyx"
    gen = SRC / pkg / f"c_hydrodiy_{pkg}.c"
    meta = vendored_meta()[pkg]
    pyxsha = sha256(pyx)
    if pyxsha == meta["pyx_sha256"]:
        # the vendored wrapper was generated from exactly this .pyx
        if gen.exists() and sha256(gen) == meta["c_sha256"]:
            return gen, False
        out = workdir / f"c_hydrodiy_{pkg}.c"
        out.write_bytes(gzip.decompress(
            (VENDOR / f"c_hydrodiy_{pkg}.c.gz").read_bytes()))
        return out, False
    # .pyx edited: use a regenerated C file if somebody produced one
    if gen.exists() and gen.stat().st_mtime >= pyx.stat().st_mtime \
            and sha256(gen) != meta["c_sha256"]:
        return gen, False
    out = workdir / f"c_hydrodiy_{pkg}.c"
    out.write_bytes(gzip.decompress(
        (VENDOR / f"c_hydrodiy_{pkg}.c.gz").read_bytes()))
    return out, True


def build(mode="norm", verbose=False):
    """Build (if needed) and return (build dir, info dict)."""
    hsh = source_hash(mode)
    out = BUILDROOT / hsh / mode
    info_file = out / "BUILD.json"
    if info_file.exists():
        return out, json.loads(info_file.read_text())

    t0 = time.time()
    tmp = BUILDROOT / hsh / f"{mode}.tmp{os.getpid()}"
    if tmp.exists():
        shutil.rmtree(tmp)
    tmp.mkdir(parents=True)
    pyinc = sysconfig.get_paths()["include"]
    import numpy
    npinc = numpy.get_include()
    sfx = sysconfig.get_config_var("EXT_SUFFIX")
    procs = []
    stale = {}
    for pkg, kernels in MODULES.items():
        wrapper, st = wrapper_source(pkg, tmp)
        stale[pkg] = st
        cmd = FLAGS[mode] + ["-shared", "-fPIC", "-w",
                             f"-I{pyinc}", f"-I{npinc}",
                             f"-I{SRC / pkg}", str(wrapper)]
        cmd += [str(SRC / pkg / k) for k in kernels]
        cmd += ["-o", str(tmp / f"c_hydrodiy_{pkg}{sfx}"), "-lm"]
        procs.append((pkg, cmd, subprocess.Popen(
            cmd, stdout=subprocess.PIPE, stderr=subprocess.STDOUT)))
    errors = []
    for pkg, cmd, p in procs:
        o, _ = p.communicate()
        if p.returncode != 0:
            errors.append(f"[{pkg}] {' '.join(cmd)}\n"
                          f"{o.decode(errors='replace')[-4000:]}")
    if errors:
        shutil.rmtree(tmp, ignore_errors=True)
        raise BuildError("\n".join(errors))
    for f in tmp.glob("c_hydrodiy_*.c"):
        f.unlink()
    info = {"hash": hsh, "mode": mode, "pyx_stale": stale,
            "build_s": round(time.time() - t0, 2),
            "flags": " ".join(FLAGS[mode])}
    (tmp / "BUILD.json").write_text(json.dumps(info))
    try:
        os.rename(tmp, out)
    except OSError:
        # somebody else built it in the meantime
        shutil.rmtree(tmp, ignore_errors=True)
    prune()
    return out, info


def prune(keep=6):
    """Keep the build cache small (disk is limited)."""
    if not BUILDROOT.exists():
        return
    dirs = sorted((d for d in BUILDROOT.iterdir() if d.is_dir()),
                  key=lambda d: d.stat().st_mtime, reverse=True)
    for d in dirs[keep:]:
        shutil.rmtree(d, ignore_errors=True)


def asan_runtime():
    p = subprocess.run(["clang", "-print-file-name=libclang_rt.asan-x86_64.so"],
                       capture_output=True, text=True, check=True)
    return p.stdout.strip()


if __name__ == "__main__":
    for m in sys.argv[1:] or ["norm"]:
        d, i = build(m)
        print(d, i)
