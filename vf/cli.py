"""Command line of the checks:  ./check <ID> <quick|thorough> [options]
                                ./check <ID> --replay <file>

Exit codes: 0 property held on everything explored, 1 violation (with a
VIOLATION line), 2 harness error (never a verdict).
"""
import argparse
import importlib
import json
import os
import sys
from pathlib import Path

VERIF = Path(__file__).resolve().parent.parent
ASAN_PROPS = {"C05"}


def main():
    ap = argparse.ArgumentParser()
    ap.add_argument("prop")
    ap.add_argument("tier", nargs="?", default=os.environ.get("VERIF_TIER",
                                                             "quick"))
    ap.add_argument("--replay")
    ap.add_argument("--only", action="append",
                    help="restrict to these sub-checks")
    ap.add_argument("--nproc", type=int, default=None)
    ap.add_argument("--list", action="store_true")
    args = ap.parse_args()
    prop = args.prop.upper()
    if args.tier not in ("quick", "thorough"):
        print(f"unknown tier {args.tier}", file=sys.stderr)
        return 2
    mode = "asan" if prop in ASAN_PROPS else "norm"

    sys.path.insert(0, str(VERIF))
    from vf import build
    if os.environ.get("VF_CHILD") != "1":
        # stage 1: build, then re-exec with the environment the checks need
        try:
            bdir, info = build.build(mode)
        except Exception as e:
            print(f"HARNESS-ERROR build failed:\n{e}", file=sys.stderr)
            return 2
        env = dict(os.environ)
        env["VF_CHILD"] = "1"
        env["VF_BUILD_DIR"] = str(bdir)
        env["VF_BUILD_INFO"] = json.dumps(info)
        env["PYTHONPATH"] = f"{bdir}:{VERIF}:{build.REPO / 'src'}"
        env["PYTHONHASHSEED"] = "0"
        env["MPLBACKEND"] = "Agg"
        env["OMP_NUM_THREADS"] = "1"
        env["OPENBLAS_NUM_THREADS"] = "1"
        env["PYTHONWARNINGS"] = "ignore"
        env["PYTHONDONTWRITEBYTECODE"] = "1"
        if mode == "asan":
            env["LD_PRELOAD"] = build.asan_runtime()
            env["ASAN_OPTIONS"] = ("detect_leaks=0:exitcode=86:"
                                   "allocator_may_return_null=1:"
                                   "handle_segv=1:abort_on_error=0")
            env["UBSAN_OPTIONS"] = "print_stacktrace=1:halt_on_error=1"
        os.execve(sys.executable, [sys.executable, "-m", "vf.cli"]
                  + sys.argv[1:], env)

    # stage 2
    import warnings
    warnings.simplefilter("ignore")
    bdir = os.environ["VF_BUILD_DIR"]
    info = json.loads(os.environ["VF_BUILD_INFO"])
    try:
        import c_hydrodiy_data
        import c_hydrodiy_stat
        import c_hydrodiy_gis
        import hydrodiy
        for m in (c_hydrodiy_data, c_hydrodiy_stat, c_hydrodiy_gis):
            if not m.__file__.startswith(bdir):
                raise ImportError(f"{m.__name__} imported from {m.__file__},"
                                  f" expected {bdir}")
        if not hydrodiy.__file__.startswith(str(build.REPO / "src")):
            raise ImportError(f"hydrodiy imported from {hydrodiy.__file__}")
    except Exception as e:
        print(f"HARNESS-ERROR import: {e!r}", file=sys.stderr)
        return 2

    from vf import core
    try:
        module = importlib.import_module(f"vf.props.{prop.lower()}")
    except ModuleNotFoundError as e:
        print(f"HARNESS-ERROR no check for {prop}: {e}", file=sys.stderr)
        return 2

    if args.list:
        for s in module.SUBS:
            print(s.name, s.kind(), s.n, s.shards)
        return 0

    if args.replay:
        r = json.loads(Path(args.replay).read_text())
        try:
            msg = core.replay_isolated(module, r["subcheck"], r["case"],
                                       r.get("history", ()))
        except Exception as e:
            print(f"HARNESS-ERROR replay: {e!r}", file=sys.stderr)
            return 2
        if msg is None:
            print(f"{prop} replay {args.replay}: property holds on this case")
            return 0
        print(f"VIOLATION property={prop} replay={args.replay}")
        print(f"  sub-check {r['subcheck']}: {msg[:1000]}")
        return 1

    seed = int(os.environ.get("VERIF_SEED", "1"))
    try:
        return core.run_property(module, args.tier, seed, info,
                                 nproc=args.nproc, only=args.only)
    except Exception:
        import traceback
        print("HARNESS-ERROR\n" + traceback.format_exc(), file=sys.stderr)
        return 2


if __name__ == "__main__":
    sys.exit(main())
