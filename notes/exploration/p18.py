import numpy as np, pandas as pd, warnings, os, tempfile, shutil, json
warnings.simplefilter("ignore")
from hydrodiy.gis.grid import Grid, Catchment
rng = np.random.default_rng(12)
d = tempfile.mkdtemp(dir="/tmp/scratch")
DT = [np.int8,np.int16,np.int32,np.int64,np.uint8,np.uint16,np.uint32,np.uint64,np.float16,np.float32,np.float64]
bad=0
def eq(a,b):
    if a.dtype!=b.dtype or a.shape!=b.shape: return False
    if a.dtype.kind=="f":
        return np.array_equal(a,b,equal_nan=True) and np.array_equal(np.signbit(a), np.signbit(b))
    return np.array_equal(a,b)
for it in range(600):
    dt = DT[rng.integers(0,len(DT))]
    nr,nc = rng.integers(1,7,size=2)
    csz = float(np.exp(rng.uniform(-9,9))); xll = float(rng.normal()*10.0**rng.integers(-3,7)); yll=float(rng.normal()*10.0**rng.integers(-3,7))
    if np.dtype(dt).kind in "iu":
        ii = np.iinfo(dt); data = rng.integers(ii.min, ii.max, size=(nr,nc), dtype=dt, endpoint=True); 
        data.flat[0]=ii.max; data.flat[-1]=ii.min
        nodata = dt(rng.choice([ii.min, ii.max, 0, 1]))
    else:
        fi=np.finfo(dt); data = (rng.normal(size=(nr,nc))*10.0**rng.integers(-3,4)).astype(dt); 
        sp = [np.nan, np.inf, -np.inf, fi.max, fi.tiny, -0.0]
        for k in range(min(data.size, 3)): data.flat[rng.integers(0,data.size)] = sp[rng.integers(0,len(sp))]
        nodata = dt(rng.choice([np.nan, -9999., 0., fi.max]))
    g = Grid("gr%d"%it, nc, nr, cellsize=csz, xllcorner=xll, yllcorner=yll, dtype=dt, nodata=nodata)
    g.data = data
    if not eq(g.data, data): bad+=1; print("setter", dt, data, g.data); continue
    f = os.path.join(d, "g%d.bil"%it); g.save(f)
    h = Grid.from_header(f)
    ok = eq(h.data, data) and h.dtype==dt and h.nrows==nr and h.ncols==nc and h.cellsize==csz and h.xllcorner==xll and h.yllcorner==yll
    nd_ok = (np.isnan(h.nodata) and np.isnan(nodata)) or h.nodata==nodata
    if not (ok and nd_ok and type(h.nodata)==dt): bad+=1; print("saveload", dt, ok, nd_ok, h.nodata, nodata, type(h.nodata))
    # big endian
    fb = os.path.join(d, "b%d.bil"%it); data.astype(np.dtype(dt).newbyteorder(">")).tofile(fb)
    txt = open(f[:-3]+"hdr").read().replace("BYTEORDER      I","BYTEORDER      M"); open(fb[:-3]+"hdr","w").write(txt)
    hb = Grid.from_header(fb)
    if not eq(hb.data, data): bad+=1; print("bigendian", dt)
    # dict
    dd = g.to_dict(); dd2 = json.loads(json.dumps(dd, default=lambda o: o.item()))
    k = Grid.from_dict(dd2)
    nd_ok = (np.isnan(k.nodata) and np.isnan(nodata)) or k.nodata==nodata
    if not (k.dtype==dt and k.nrows==nr and k.ncols==nc and k.cellsize==csz and k.xllcorner==xll and k.yllcorner==yll and nd_ok): bad+=1; print("dict", dt, k.nodata, nodata)
    # clone
    c = g.clone(); 
    if not eq(c.data, data): bad+=1; print("clone")
    c.data.flat[0] = 1 if data.flat[0]!=1 else 2
    if not eq(g.data, data): bad+=1; print("clone not independent")
    # clip
    r0,r1 = sorted(rng.integers(0,nr,size=2)); c0,c1 = sorted(rng.integers(0,nc,size=2))
    # box corners inside cells (r1,c0) lower-left and (r0,c1) upper-right
    fx = rng.uniform(0.05,0.95,size=4)
    x0 = xll+(c0+fx[0])*csz; y0 = yll+(nr-1-r1+fx[1])*csz; x1 = xll+(c1+fx[2])*csz; y1=yll+(nr-1-r0+fx[3])*csz
    try:
        cl = g.clip(x0,y0,x1,y1)
        exp = data[r0:r1+1, c0:c1+1]
        if not eq(cl.data, exp): bad+=1; print("clip data", dt, cl.data, exp)
        # coinciding centres
        cc = cl.cell2coord(np.arange(cl.nrows*cl.ncols)); pc = g.coord2cell(cc)
        if not np.array_equal(g.data.flat[pc], cl.data.ravel(), equal_nan=(np.dtype(dt).kind=="f")): bad+=1; print("clip centres")
    except Exception as e:
        bad+=1; print("clip EXC", dt, repr(e)[:100], csz, xll, yll)
print("bad", bad)
shutil.rmtree(d)
