import numpy as np, itertools, os, sys, warnings, time
warnings.simplefilter("ignore")
from hydrodiy.gis.grid import Grid, accumulate
CODES = {32:(-1,-1),64:(-1,0),128:(-1,1),16:(0,-1),1:(0,1),8:(1,-1),4:(1,0),2:(1,1)}
def down_model(fd, c):
    nr,nc = fd.shape; r,k = divmod(c,nc); code = fd[r,k]
    if code==0: return -2
    if code not in CODES: return -1
    dr,dc = CODES[code]; r2,k2=r+dr,k+dc
    if r2<0 or r2>=nr or k2<0 or k2>=nc: return -1
    return r2*nc+k2
dn = os.open(os.devnull, os.O_WRONLY); so=os.dup(1); os.dup2(dn,1)
def log(*a): print(*a, file=sys.stderr)
rng=np.random.default_rng(31)
codes=[0,1,2,4,8,16,32,64,128,3]
bad=0; n=0; nt=0; cyc_n=0
def check(fd, field, nodata):
    global bad,n,nt,cyc_n
    nr,nc=fd.shape; N=nr*nc
    dm=[down_model(fd,c) for c in range(N)]
    # cycle?
    cyc=False; chains=[]
    for c in range(N):
        seen=[]; x=c
        while x>=0 and x not in seen: seen.append(x); x=dm[x]
        if x>=0: cyc=True
        chains.append(seen)
    g=Grid("fd",nc,nr,dtype=np.int64); g.data=fd
    ta=None
    if field is not None:
        ta=Grid("ta",nc,nr,dtype=np.float64,nodata=nodata); ta.data=field
    fd0=fd.copy(); f0=None if field is None else field.copy()
    try:
        acc=accumulate(g,ta,nprint=0 if n%2 else 100).data.ravel()
    except ValueError as e:
        if not cyc: bad+=1; log("ERR", fd, e)
        return
    n+=1
    if cyc: cyc_n+=1; return
    f=np.ones(N) if field is None else field.ravel()
    nd = g.nodata if field is None else nodata
    exp=np.zeros(N)
    for c in range(N):
        for x in chains[c]: exp[x]+=f[c]
    ok=True
    for c in range(N):
        if dm[c]<0:
            if not (acc[c]==nd or (np.isnan(nd) and np.isnan(acc[c]))): ok=False
        else:
            if abs(acc[c]-exp[c])>1e-9*max(1,np.abs(f).sum()): ok=False
            ups=[u for u in range(N) if dm[u]==c]
    if not np.array_equal(g.data, fd0) or (field is not None and not np.array_equal(ta.data, f0)): ok=False
    if len(set(f.tolist()))>1 and max(len([u for u in range(N) if c in chains[u]]) for c in range(N))>=3: nt+=1
    if not ok:
        bad+=1
        if bad<5: log("ACC", fd.tolist(), None if field is None else field.tolist(), acc, exp)
t0=time.time()
for (nr,nc) in [(1,1),(1,2),(2,1),(1,3),(3,1),(2,2)]:
    for vals in itertools.product(codes, repeat=nr*nc):
        fd=np.array(vals).reshape(nr,nc)
        check(fd, None, 0); check(fd, rng.integers(-3,8,size=(nr,nc)).astype(float), -9999.)
for it in range(1500):
    nr,nc=rng.integers(1,9,size=2); fd=rng.choice(codes[:9], size=(nr,nc), p=[0.04]+[0.12]*8)
    check(fd, rng.normal(size=(nr,nc))*rng.choice([1,100]), float(rng.choice([-9999.,0.,np.nan])))
log("runs",n,"nontrivial",nt,"cyclic",cyc_n,"bad",bad,round(time.time()-t0,1))
