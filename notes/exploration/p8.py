import numpy as np, itertools, math, warnings, os, sys, time
warnings.simplefilter("ignore")
from fractions import Fraction as Fr
from hydrodiy.gis.grid import Grid, Catchment, voronoi
from hydrodiy.gis import gutils
rng = np.random.default_rng(3)
# C15 oracle: exact crossing number
def inside_exact(pt, poly):
    x,y = Fr(pt[0]),Fr(pt[1]); n=len(poly); c=False
    for i in range(n):
        x1,y1 = map(Fr,poly[i]); x2,y2 = map(Fr,poly[(i+1)%n])
        if (y1>y) != (y2>y):
            xi = x1+(y-y1)*(x2-x1)/(y2-y1)
            if xi > x: c = not c
    return c
def dist_boundary(pt, poly):
    x,y=pt; n=len(poly); dmin=1e300
    for i in range(n):
        x1,y1=poly[i]; x2,y2=poly[(i+1)%n]
        dx,dy=x2-x1,y2-y1; L=dx*dx+dy*dy
        t = 0 if L==0 else max(0,min(1,((x-x1)*dx+(y-y1)*dy)/L))
        d = math.hypot(x-(x1+t*dx), y-(y1+t*dy)); dmin=min(dmin,d)
    return dmin
bad=0; tot=0
for it in range(3000):
    nv = rng.integers(3,9)
    mode = rng.integers(0,3)
    if mode==0: poly = rng.integers(-4,5,size=(nv,2)).astype(float)
    elif mode==1: poly = rng.normal(size=(nv,2))*3
    else:
        ang = np.sort(rng.uniform(0,2*np.pi,nv)); rad = rng.uniform(1,4,nv); poly = np.column_stack([rad*np.cos(ang), rad*np.sin(ang)])
    if rng.integers(0,2): poly = np.vstack([poly, poly[:1]])
    pts = np.column_stack([rng.integers(-10,11,size=40)/2., rng.integers(-10,11,size=40)/2.]) if mode==0 else rng.normal(size=(40,2))*3
    res = gutils.points_inside_polygon(pts, poly)
    for p,r in zip(pts,res):
        if dist_boundary(p, poly) < 1e-6: continue
        tot+=1
        if bool(r)!=inside_exact(p, poly):
            bad+=1
            if bad<6: print("C15", poly.tolist(), p, r)
print("C15 bad", bad, tot)
