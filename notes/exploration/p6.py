import numpy as np, pandas as pd, warnings
warnings.simplefilter("ignore")
from hydrodiy.stat import metrics
import c_hydrodiy_stat
from scipy.stats import rankdata
rng = np.random.default_rng(2)
def ref_ranks(sim):
    n, m = sim.shape
    ranks = np.ones(n); F = np.zeros((n,n))
    for i in range(n):
        for j in range(i+1, n):
            pooled = np.concatenate([sim[i], sim[j]])
            r = rankdata(pooled)  # midranks
            f = (r[:m].sum() - m*(m+1)/2)/m/m
            F[i,j]=f
            u = 0. if f<0.5-1e-8 else 1. if f>0.5+1e-8 else 0.5
            ranks[i]+=u; ranks[j]+=1-u
    return F, ranks
bad=0
for it in range(3000):
    n = rng.integers(2,7); m = rng.integers(1,6)
    sim = rng.integers(-2,3,size=(n,m)).astype(float)
    fmat = np.zeros((n,n)); ranks=np.zeros(n)
    ierr = c_hydrodiy_stat.ensrank(1e-6, sim, fmat, ranks)
    F, R = ref_ranks(sim)
    if ierr!=0 or not np.allclose(np.triu(fmat,1), F) or not np.allclose(ranks,R):
        bad+=1
        if bad<4: print(ierr, sim, fmat, F, ranks, R)
print("bad ensrank", bad)
# dscore const
obs = np.array([1.,2.,3.]); sim = np.ones((3,4))
print("D const", metrics.dscore(obs, sim))
print("D perfect", metrics.dscore(obs, obs[:,None]+np.array([[0,0.1,0.2]])), metrics.dscore(obs, -obs[:,None]+np.array([[0,0.1,0.2]])))
print("D single perfect", metrics.dscore(obs, obs[:,None]), metrics.dscore(obs, -obs[:,None]))
# AD pvalue range
mn, mx = 1, 0
for it in range(20000):
    n = rng.integers(1, 30)
    k = rng.integers(0,4)
    if k==0: u = rng.uniform(size=n)
    elif k==1: u = rng.beta(0.1,0.1,size=n).clip(1e-12,1-1e-12)
    elif k==2: u = rng.uniform(0.49,0.51,size=n)
    else: u = np.clip(rng.beta(5,0.2,size=n), 1e-300, 1-1e-16)
    st, p = metrics.anderson_darling_test(u)
    if not (0<=p<=1):
        if p<mn or p>mx: print("AD out of range", n, st, p)
    mn=min(mn,p); mx=max(mx,p)
print(mn,mx)
u = rng.uniform(size=7)
s = np.sort(u); n=7; i=np.arange(1,n+1)
print(metrics.anderson_darling_test(u)[0], -n - np.sum((2*i-1)*(np.log(s)+np.log(1-s[::-1])))/n)
try: print(metrics.anderson_darling_test(np.array([0.5,1.2])))
except Exception as e: print("rej", e)
try: print(metrics.anderson_darling_test(np.array([0.5,np.nan])))
except Exception as e: print("rej", e)
print(metrics.cramer_von_mises_test(u))
for n in [1,2,3,5,1000]:
    print(n, metrics.cramer_von_mises_test(rng.uniform(size=n)))
