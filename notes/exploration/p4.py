import numpy as np, pandas as pd, warnings
warnings.simplefilter("ignore")
from hydrodiy.data import dutils
def mk(times, vals):
    return pd.Series(vals, index=pd.DatetimeIndex(pd.to_datetime(times, format="%Y-%m-%d %H:%M:%S")).as_unit("ns"))
se = mk(["2000-01-01 00:00:00","2000-01-01 01:00:00","2000-01-01 02:00:00","2000-01-01 03:00:00"], [1.,1.,1.,1.])
print(dutils.var2h(se, nbsec_per_period=1800))
se = mk(["2000-01-01 00:10:00","2000-01-01 01:00:00","2000-01-01 02:00:00","2000-01-01 03:10:00"], [1.,1.,1.,1.])
print(dutils.var2h(se, nbsec_per_period=1800))
print(dutils.var2h(se, nbsec_per_period=3600))
# short series
se = mk(["2000-01-01 00:10:00","2000-01-01 00:50:00"], [1.,1.])
try: print(dutils.var2h(se))
except Exception as e: print("ERR", e)
