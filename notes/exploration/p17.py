import numpy as np, pandas as pd, warnings, math
warnings.simplefilter("ignore")
from hydrodiy.data import dutils
rng = np.random.default_rng(11)
def oracle(ts, vs, hstart, P, nper, rainfall, maxgap):
    """ returns list of (expected value or None if unconstrained/missing?, must_missing(bool), may_missing(bool)) """
    out=[]
    n=len(ts)
    for i in range(nper):
        s=hstart+i*P; e=s+P
        tot=0.; must=False; may=False; covered=0
        for k in range(n-1):
            t1,t2=ts[k],ts[k+1]
            lo=max(t1,s); hi=min(t2,e)
            invalid = (vs[k]<0) or (vs[k+1]<0) or np.isnan(vs[k]) or np.isnan(vs[k+1]) or (t2-t1>maxgap)
            if hi>lo:
                covered += hi-lo
                if invalid: must=True
                else:
                    if rainfall: tot += vs[k+1]*(hi-lo)/(t2-t1)
                    else:
                        a=(vs[k+1]-vs[k])/(t2-t1); v1=vs[k]+a*(lo-t1); v2=vs[k]+a*(hi-t1); tot+=(v1+v2)/2*(hi-lo)
            elif (t2>=s and t1<=e) and invalid:   # touching only (incl zero-length intervals inside)
                may=True
        if covered < P: must=True   # not fully covered by data
        val = tot if rainfall else tot/P
        out.append((val, must, may))
    return out
bad=0; tot=0; nontriv=0
for it in range(3000):
    P = int(rng.choice([1800,3600])); rainfall=bool(rng.integers(0,2)); maxgap=int(rng.choice([3600, 7200, 5*86400]))
    n = int(rng.integers(2,40))
    t0 = pd.Timestamp("2001-03-04") + pd.Timedelta(seconds=int(rng.integers(0,7200)))
    mode = rng.integers(0,3)
    if mode==0: steps = rng.integers(1, 4000, size=n-1)
    elif mode==1: steps = rng.choice([0,600,900,1800,3600,5400], size=n-1)
    else: steps = rng.choice([1,59,600,3600,20000], size=n-1)
    secs = np.concatenate([[0],np.cumsum(steps)])
    if secs[-1] < 2*P: continue
    vals = rng.uniform(0,10,size=n); m=rng.uniform(size=n); vals[m<0.05]=np.nan; vals[(m>0.05)&(m<0.1)]=-1.
    unit = str(rng.choice(["s","ms","us","ns"]))
    idx = pd.DatetimeIndex([t0+pd.Timedelta(seconds=int(s)) for s in secs]).as_unit(unit)
    tzc = rng.integers(0,3)
    if tzc==1: idx = idx.tz_localize("UTC")
    elif tzc==2: idx = idx.tz_localize("Australia/Brisbane")
    se = pd.Series(vals, index=idx)
    r = dutils.var2h(se, nbsec_per_period=P, maxgapsec=maxgap, rainfall=rainfall)
    ts = (t0 - pd.Timestamp("1970-01-01")).total_seconds() + secs
    hstart = (pd.Timestamp(t0.year,t0.month,t0.day,t0.hour)+pd.Timedelta(hours=1) - pd.Timestamp("1970-01-01")).total_seconds()
    exp = oracle(ts, vals, hstart, P, len(r), rainfall, maxgap)
    if r.index[0] != pd.Timestamp(t0.year,t0.month,t0.day,t0.hour)+pd.Timedelta(hours=1): bad+=1; print("index0")
    for i,(v,(ev,must,may)) in enumerate(zip(r.values, exp)):
        if i==len(r)-1: continue
        tot+=1
        if must:
            if not np.isnan(v): bad+=1; print("should be missing", it, i, v, P, rainfall)
        elif np.isnan(v):
            if not may: bad+=1; print("unexpected missing", it, i, P)
        else:
            nontriv+=1
            if abs(v-ev) > 1e-9*max(1,abs(ev)): bad+=1; print("value", it, i, v, ev, P, rainfall)
print("bad", bad, tot, nontriv)
