import os, hypothesis
from hypothesis import settings, strategies as st, seed, HealthCheck
from hypothesis.stateful import RuleBasedStateMachine, rule, invariant, run_state_machine_as_test, Bundle
import numpy as np
from hydrodiy.data.containers import Vector
class M(RuleBasedStateMachine):
    vecs = Bundle("vecs")
    @rule(target=vecs, chk=st.booleans())
    def new(self, chk):
        return Vector(["a","b"],[0,0],[-1,-1],[1,1],check_hitbounds=chk)
    @rule(v=vecs, x=st.sampled_from([-5.,0.25,7.]))
    def seta(self, v, x):
        v.a = x
        assert -1 <= v.a <= 1
        assert v.hitbounds == (v.check_hitbounds and abs(x)>1)
    @rule(target=vecs, v=vecs)
    def clone(self, v):
        c = v.clone()
        assert c.check_hitbounds == v.check_hitbounds, "clone lost check_hitbounds"
        return c
for s in [1,2]:
    try:
        run_state_machine_as_test(seed(s)(M), settings=settings(max_examples=200, stateful_step_count=20, deadline=None, database=None, suppress_health_check=list(HealthCheck)))
        print("seed", s, "pass")
    except AssertionError as e:
        print("seed", s, "FAIL", e)
print(hypothesis.__version__)
