import numpy as np, pandas as pd, warnings, os, tempfile, shutil, zipfile, string
warnings.simplefilter("ignore")
from hydrodiy.io import csv
rng = np.random.default_rng(13)
d = tempfile.mkdtemp(dir="/tmp/scratch"); src=os.path.join(d,"src.py"); open(src,"w").close()
NAMECH = string.ascii_letters+string.digits+" -_"
TXTCH = string.ascii_letters+string.digits+" ,\"':#;-_./()[]{}!?@$%^&*+=<>|~`\\"
def rname():
    n=rng.integers(1,12); return "".join(rng.choice(list(NAMECH), size=n))
def rtxt():
    n=rng.integers(1,15); return "".join(rng.choice(list(TXTCH), size=n))
bad={}
def B(k, info): 
    bad[k]=bad.get(k,0)+1
    if bad[k]<4: print(k, info)
for it in range(1500):
    nc = rng.integers(1,6); nr = rng.integers(1,8)
    names=[]
    while len(names)<nc:
        nm=rname()
        if nm not in names: names.append(nm)
    cols={}; kinds=[]
    for nm in names:
        k = rng.integers(0,3); kinds.append(k)
        if k==0: cols[nm]=rng.normal(size=nr)*10.0**rng.integers(-2,4)
        elif k==1: cols[nm]=rng.integers(-10**6,10**6,size=nr)
        else: cols[nm]=[rtxt() for _ in range(nr)]
    df = pd.DataFrame(cols)
    comment = {}
    for _ in range(rng.integers(0,4)):
        key = "".join(rng.choice(list(string.ascii_lowercase+string.digits+"_"), size=rng.integers(1,26)))
        comment[key] = rtxt().strip() or "x"
    mode = rng.integers(0,5)
    base = "f%d"%it
    try:
        if mode==0:
            p=os.path.join(d,base+".csv"); csv.write_csv(df,p,comment,src,compress=False,write_sys_info=bool(rng.integers(0,2))); r,cm=csv.read_csv(p)
        elif mode in (1,2,3):
            p=os.path.join(d,base+[".csv",".zip",""][mode-1]); csv.write_csv(df,p,comment,src,compress=True); r,cm=csv.read_csv(p)
        else:
            zp=os.path.join(d,base+"_arch.zip"); 
            with zipfile.ZipFile(zp,"w") as ar: csv.write_csv(df,"sub/dir/"+base+".csv",comment,src,archive=ar)
            with zipfile.ZipFile(zp,"r") as ar: r,cm=csv.read_csv("sub/dir/"+base+".csv", archive=ar)
    except Exception as e:
        B("EXC", (mode, names, repr(e)[:150])); continue
    if list(r.columns)!=names: B("names", (names, list(r.columns))); continue
    if len(r)!=nr: B("nrows",(nr,len(r), df.to_dict("list"), mode, open(p).read() if mode==0 else ""))
    if len(r)!=nr: continue
    for nm,k in zip(names,kinds):
        if k==0:
            if not np.allclose(r[nm].values.astype(float), df[nm].values, rtol=0, atol=0.6e-5): B("float",(nm,))
        elif k==1:
            if not np.array_equal(r[nm].values, df[nm].values): B("int",(nm, r[nm].values, df[nm].values))
        else:
            got=list(r[nm]); exp=list(df[nm])
            if got!=exp: B("text",(exp,got))
    for kk,v in comment.items():
        if cm.get(kk)!=v: B("comment",(kk,v,cm.get(kk)))
    if cm.get("nrow")!=str(nr) or cm.get("ncol")!=str(nc): B("nrowcol",(cm.get("nrow"),cm.get("ncol")))
print(bad)
shutil.rmtree(d)
