import numpy as np, pandas as pd, warnings, json, itertools
warnings.simplefilter("ignore")
from hydrodiy.io import hyruns
from hydrodiy.stat import armodels
from hydrodiy.data import dutils
rng = np.random.default_rng(9)
# C19 batches exhaustive
bad=0
for ne in range(1,60):
    for nb in range(1,ne+1):
        allidx=[]; sizes=[]
        for ib in range(nb):
            idx = list(hyruns.get_batch(ne,nb,ib)); allidx+=idx; sizes.append(len(idx))
            if idx!=list(range(idx[0], idx[0]+len(idx))): bad+=1
        if allidx!=list(range(ne)) or max(sizes)-min(sizes)>1: bad+=1
print("batch bad", bad)
sb = hyruns.SiteBatch(["a","b","c","d","e"], 2); print([sb.search(s) for s in "abcde"], sb[0], sb[1])
# option manager
opm = hyruns.OptionManager("x", ctx=1, name2="k")
opm.from_cartesian_product(a=[1,2,3], b=["u","v"], c=5)
print(opm.ntasks, [opm.get_task(i).options for i in range(3)])
d = json.loads(json.dumps(opm.to_dict()))
o2 = hyruns.OptionManager.from_dict(d); print(opm==o2, o2==opm, o2.name, o2.context)
print(opm.find(a=2), opm.find(b="u"), opm.find(a=1,b="v"))
opm.from_cartesian_product(a=[1,11,-1], b=["u","uu"]); print(opm.find(a=1), opm.find(b="u"), opm.find(a=-1))
# C17
bad=0; worst=0
for it in range(2000):
    order = rng.integers(1,11); phi = rng.normal(size=order); phi *= rng.uniform(0,1.5)/np.abs(phi).sum()
    n = int(rng.choice([0,1,2,5,50,500])); e = rng.normal(size=n); m = rng.normal()*10; ini = rng.normal()*10
    e[rng.uniform(size=n)<0.1]=np.nan
    y = armodels.armodel_sim(phi, e, m, ini)
    # reference
    prev = [ini-m]*order; yr=np.zeros(n)
    for t in range(n):
        v = (0 if np.isnan(e[t]) else e[t]) + sum(phi[k]*prev[k] for k in range(order))
        prev = [v]+prev[:-1]; yr[t]=v+m
    sc = np.maximum.accumulate(np.abs(yr)+abs(m)+1) if n else np.zeros(0)
    err1 = np.max(np.abs(y-yr)/sc) if n else 0
    r = armodels.armodel_residual(phi, y, m, ini)
    e0 = np.where(np.isnan(e),0,e)
    err2 = np.max(np.abs(r-e0)/sc) if n else 0
    y2 = armodels.armodel_sim(phi, r, m, ini); err3 = np.max(np.abs(y2-y)/sc) if n else 0
    worst=max(worst,err1,err2,err3)
    if max(err1,err2,err3)>1e-9: bad+=1
print("AR bad", bad, worst)
for o in [0,11]:
    try: armodels.armodel_sim(np.zeros(o), np.zeros(3)); print("no reject", o)
    except ValueError as e: print("rej", o)
try: armodels.armodel_sim(np.array([np.nan]), np.zeros(3)); print("no reject nan")
except ValueError as e: print("rej nan")
# monthly2daily
bad=0
for it in range(200):
    start = pd.Timestamp(year=int(rng.integers(1890,2110)), month=int(rng.integers(1,13)), day=1)
    nm = int(rng.integers(2,60)); idx = pd.date_range(start, periods=nm, freq="MS")
    se = pd.Series(rng.uniform(0,100,size=nm), index=idx)
    for interp in ["flat","cubic"]:
        try:
            d = dutils.monthly2daily(se, interp)
        except Exception as ex:
            bad+=1; print("m2d EXC", interp, start, nm, repr(ex)[:100]); continue
        exp_days = pd.date_range(start, idx[-1]+pd.offsets.MonthEnd(0))
        if len(d)!=len(exp_days) or not (d.index==exp_days).all(): bad+=1; print("days", interp, len(d), len(exp_days)); continue
        ms = d.groupby([d.index.year, d.index.month]).sum().values
        if not np.allclose(ms, se.values, rtol=1e-9, atol=1e-9): bad+=1; print("sum", interp, start, nm, np.max(np.abs(ms-se.values)))
print("m2d bad", bad)
