import numpy as np, pandas as pd, warnings
warnings.simplefilter("ignore")
from hydrodiy.stat import metrics
def t(obs, sim, ncat=None):
    try:
        cm = metrics.confusion_matrix(obs, sim, ncat)
        print(obs, sim, ncat, "->\n", cm, type(cm), cm.values.sum())
    except Exception as e: print(obs, sim, ncat, "ERR", repr(e))
t([0,1,1,0],[0,1,0,0])
t([0,0,0],[1,1,1])
t([0,0,0],[0,0,0])
t([0,0,0],[0,0,0], 2)
t([0,2],[2,0])
t([0,2],[2,0],3)
t([1,1],[1,1],3)
t([0,1,2,1],[0,0,0,0],4)
t([0,1,5],[0,0,0],3)
print(metrics.binary([[50,10],[5,35]]))
print(metrics.binary([[10,50],[35,5]]))
