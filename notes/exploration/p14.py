import numpy as np, pandas as pd, warnings, os, sys, copy
warnings.simplefilter("ignore")
import matplotlib; matplotlib.use("Agg")
import matplotlib.pyplot as plt
from hydrodiy.stat import metrics, sutils, armodels, transform
from hydrodiy.data import dutils, qualitycontrol, signatures
from hydrodiy.gis.grid import Grid, Catchment, accumulate, voronoi, slope, delineate_river
from hydrodiy.gis import gutils
from hydrodiy.plot import putils, boxplot, violinplot
dn = os.open(os.devnull, os.O_WRONLY); so = os.dup(1)
rng = np.random.default_rng(7)
def snap(a):
    if isinstance(a, np.ndarray): return ("nd", a.dtype.str, a.shape, a.tobytes(), a.flags["C_CONTIGUOUS"])
    if isinstance(a, pd.Series): return ("se", str(a.dtype), a.shape, a.values.tobytes(), tuple(map(str,a.index)))
    if isinstance(a, pd.DataFrame): return ("df", tuple(map(str,a.dtypes)), a.shape, a.values.tobytes(), tuple(map(str,a.index)), tuple(map(str,a.columns)))
    if isinstance(a, Grid): return ("grid", np.dtype(a.dtype).str, a.data.shape, a.data.astype(np.float64).tobytes(), float(a.nodata))
    if isinstance(a, pd.DatetimeIndex): return ("dti", str(a.dtype), tuple(a.asi8))
    return ("other", repr(a))
def same(r1, r2):
    try:
        if isinstance(r1, tuple): return all(same(a,b) for a,b in zip(r1,r2))
        if isinstance(r1, (pd.Series,pd.DataFrame)): return r1.equals(r2)
        if isinstance(r1, Grid): return np.array_equal(r1.data, r2.data, equal_nan=True)
        if isinstance(r1, dict): return all(same(r1[k], r2[k]) for k in r1)
        return np.array_equal(np.asarray(r1, dtype=float), np.asarray(r2,dtype=float), equal_nan=True)
    except Exception as e:
        return f"cmp-err {e}"
def check(name, fn, *args, seeded=False):
    before = [snap(a) for a in args]
    try:
        os.dup2(dn,1)
        if seeded: np.random.seed(1)
        r1 = fn(*args)
        mid = [snap(a) for a in args]
        if seeded: np.random.seed(1)
        r2 = fn(*args)
        os.dup2(so,1)
        mut = [i for i,(b,m) in enumerate(zip(before,mid)) if b!=m]
        det = [i for i,(b,m) in enumerate(zip(before,mid)) if b!=m and (b[1]!=m[1] or b[2]!=m[2])]
        print(f"{name:28s} mutated_args={mut} dtype/shape_changed={det} repeatable={same(r1,r2)}")
    except Exception as e:
        os.dup2(so,1)
        mid = [snap(a) for a in args]
        mut = [i for i,(b,m) in enumerate(zip(before,mid)) if b!=m]
        print(f"{name:28s} EXC {type(e).__name__}: {str(e)[:60]} mutated={mut}")
n=30
obs = rng.normal(size=n)+3; ens = rng.normal(size=(n,5))+3; sim=obs+rng.normal(size=n)*0.3
ensF = np.asfortranarray(ens); ensS = rng.normal(size=(n,10))[:, ::2]+3
for nm, e in [("C",ens),("F",ensF),("strided",ensS)]:
    check("crps/"+nm, metrics.crps, obs, e)
    check("dscore/"+nm, metrics.dscore, obs, e)
    check("pit/"+nm, metrics.pit, obs, e)
    check("pit_random/"+nm, lambda o,e: metrics.pit(o,e,random=True), obs, e, seeded=True)
    check("alpha/"+nm, metrics.alpha, obs, e, seeded=True)
    check("iqr/"+nm, metrics.iqr, e, e+1)
    check("corr/"+nm, metrics.corr, obs, e)
u = rng.uniform(size=20)
check("ad_test", metrics.anderson_darling_test, u)
check("ad_test_strided", metrics.anderson_darling_test, rng.uniform(size=40)[::2])
check("cvm", metrics.cramer_von_mises_test, u)
for f in ["bias","nse","kge"]:
    check(f, getattr(metrics,f), obs, sim)
    check(f+"_int", getattr(metrics,f), (obs*10).astype(int), (sim*10).astype(int))
    check(f+"_series", getattr(metrics,f), pd.Series(obs), pd.Series(sim))
check("abs_peak_err", lambda o,s: metrics.absolute_peak_error(o,s,winerase=3), obs, sim)
check("rel_perc_err", lambda o,s: metrics.relative_percentile_error(o,s,[10,90]), obs, sim)
check("confusion", metrics.confusion_matrix, (obs>3), (sim>3))
check("binary", metrics.binary, np.array([[5,2],[3,4]]))
check("ppos", sutils.ppos, 10)
check("acf", lambda d: sutils.acf(d, 3), obs)
check("lhs", sutils.lhs, 5, np.zeros(3), np.ones(3), seeded=True)
check("lhs_norm", sutils.lhs_norm, 5, np.zeros(2), np.eye(2), seeded=True)
check("standard_normal", sutils.standard_normal, obs)
check("semicorr", sutils.semicorr, np.column_stack([obs-3,sim-3]))
pd_ = rng.normal(size=(10,3))
check("pareto", sutils.pareto_front, pd_); check("paretoF", sutils.pareto_front, np.asfortranarray(pd_))
X = rng.normal(size=(20,2)); y=rng.normal(size=20)
check("lstsq", sutils.lstsq, X, y); check("lstsq_icpt", lambda X,y: sutils.lstsq(X,y,add_intercept=True), X, y)
Xdf = pd.DataFrame(X, columns=["a","b"])
check("lstsq_df_icpt", lambda X,y: sutils.lstsq(X,y,add_intercept=True), Xdf, y)
check("ar_sim", armodels.armodel_sim, np.array([0.5,0.2]), obs); check("ar_res", armodels.armodel_residual, np.array([0.5,0.2]), obs)
check("ar_sim_strided", armodels.armodel_sim, np.array([0.5,0.2]), rng.normal(size=60)[::2])
check("yule", armodels.yule_walker, np.array([1,0.5,0.2]))
for cls in ["Identity","Logit","Log","BoxCox2","BoxCox2sym","YeoJohnson","Reciprocal","Sinh"]:
    t = transform.get_transform(cls)
    x = rng.uniform(0.1,0.9,size=10)
    check("tr_fwd_"+cls, t.forward, x); check("tr_bwd_"+cls, t.backward, x); check("tr_jac_"+cls, t.jacobian, x)
    check("tr_bwdcens_"+cls, t.backward_censored, x)
t = transform.Softmax(); x2 = rng.uniform(0.01,0.2,size=(4,3)); check("softmax", t.forward, x2); check("softmax_j", t.jacobian, x2)
idx = np.repeat(np.arange(6),5)
check("aggregate", dutils.aggregate, idx, obs); check("aggregate_int", dutils.aggregate, idx, (obs*10).astype(int)); check("flathomogen", dutils.flathomogen, idx, obs)
check("lag", dutils.lag, obs, 2)
dt = pd.date_range("2001-01-01", periods=400)
check("dayofyear", dutils.dayofyear, dt)
check("aggindex", dutils.compute_aggindex, dt, "MS")
sem = pd.Series(rng.uniform(1,5,size=14), index=pd.date_range("2001-03-01", periods=14, freq="MS"))
check("m2d_flat", dutils.monthly2daily, sem); check("m2d_cubic", lambda s: dutils.monthly2daily(s,"cubic"), sem)
sed = pd.Series(rng.uniform(1,5,size=800), index=pd.date_range("2001-03-01", periods=800))
check("wy_end", dutils.water_year_end, sed)
sev = pd.Series(rng.uniform(1,5,size=50), index=pd.date_range("2001-03-01", periods=50, freq="17min").as_unit("ns"))
check("var2h", dutils.var2h, sev)
check("seq_true", dutils.sequence_true, obs>3)
check("ismisscens", qualitycontrol.ismisscens, obs); check("islinear", qualitycontrol.islinear, obs)
check("eckhardt", signatures.eckhardt, obs); check("fdcslope", signatures.fdcslope, obs); check("goue", signatures.goue, idx, obs)
fd = Grid("fd", 4,4,dtype=np.int64); fd.data = np.array([[2,4,8,16],[1,2,4,8],[1,1,4,16],[1,1,0,16]])
fdf = fd.clone(np.float64); fdi32 = fd.clone(np.int32)
ta = Grid("ta",4,4,dtype=np.float64); ta.data = rng.uniform(size=(4,4))
tai = Grid("ta",4,4,dtype=np.int32); tai.data = rng.integers(1,5,size=(4,4))
check("accumulate", accumulate, fd, ta); check("accumulate_none", accumulate, fd)
check("accumulate_f", accumulate, fdf, ta); check("accumulate_i32", accumulate, fdi32, tai)
check("slope", slope, fd, ta); check("slope_i", slope, fdi32, tai)
check("river", lambda g: delineate_river(g, 0, nval=50), fd); check("river_i32", lambda g: delineate_river(g, 0, nval=50), fdi32)
def cat(g):
    c = Catchment("c", g); c.delineate_area(14, nval=100); c.delineate_boundary(); c.compute_flowpathlengths()
    return c.idxcells_area, c.idxcells_boundary, c.flowpathlengths
check("catchment", cat, fd)
c = Catchment("c", fd); c.delineate_area(14, nval=100)
pts = rng.uniform(0,4,size=(3,2))
check("voronoi", lambda p: voronoi(c,p), pts); check("voronoi_F", lambda p: voronoi(c,p), np.asfortranarray(pts))
g2 = Grid("g",2,2,cellsize=2.)
check("intersect", lambda g: c.intersect(g), g2)
mask = np.zeros(16,dtype=np.int64); mask[c.idxcells_area_filled]=1
check("boundary_mask", lambda m: c.delineate_boundary(m), mask)
check("upstream", c.upstream, np.array([14,5])); check("downstream", c.downstream, np.array([1,2]))
check("coord2cell", fd.coord2cell, pts); check("cell2coord", fd.cell2coord, np.array([1,2,3])); check("slice", ta.slice, pts)
poly = np.array([[0.,0],[3,0],[3,3],[0,3]])
check("pip", gutils.points_inside_polygon, pts, poly); check("pip_F", gutils.points_inside_polygon, np.asfortranarray(pts), np.asfortranarray(poly))
check("cells_in_poly", fd.cells_inside_polygon, poly)
check("clip", lambda g: g.clip(0.5,0.5,2.5,2.5), ta); check("apply", lambda g: g.apply(np.sqrt), ta)
check("interpolate", lambda g: g.interpolate(g2), ta)
xy = rng.normal(size=(30,2))
check("kde", putils.kde, xy, seeded=True)
fig, ax = plt.subplots()
check("ecdfplot", lambda d: putils.ecdfplot(ax, d), pd.DataFrame(ens))
check("qqplot", lambda d: putils.qqplot(ax, d), obs)
df = pd.DataFrame(ens)
check("boxplot_stats", lambda d: boxplot.boxplot_stats(d, 50, 90), obs)
check("Boxplot", lambda d: boxplot.Boxplot(d).stats, df); check("Boxplot_by", lambda d,b: boxplot.Boxplot(d, by=b).stats, pd.Series(obs), pd.Series(np.arange(n)%3))
def bdraw(d):
    b = boxplot.Boxplot(d); b.draw(ax=ax); return b.stats
check("Boxplot_draw", bdraw, df)
check("Violin", lambda d: violinplot.Violin(d).stats, df, seeded=True)
def vdraw(d):
    v = violinplot.Violin(d); v.draw(ax=ax); return v.kde_y
check("Violin_draw", vdraw, df, seeded=True)
check("Violin_np", lambda d: violinplot.Violin(d).kde_y, ens, seeded=True)
