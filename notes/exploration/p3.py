import numpy as np, pandas as pd, warnings
warnings.simplefilter("ignore")
from hydrodiy.data import dutils
dt = pd.date_range("2000-01-01 00:10", freq="10min", periods=60)
print(dt.dtype, dt.unit)
se = pd.Series(np.arange(60.), index=dt)
try:
    print(dutils.var2h(se).head(12))
except Exception as e: print("ERR", repr(e))
for unit in ["s","ms","us","ns"]:
    se2 = pd.Series(se.values, index=dt.as_unit(unit))
    try:
        r = dutils.var2h(se2); print(unit, r.values[:5])
    except Exception as e: print(unit, "ERR", repr(e))
se3 = pd.Series(se.values, index=dt.as_unit("ns").tz_localize("Australia/Sydney"))
try:
    r = dutils.var2h(se3); print("tz", r.values[:5], r.index[:2])
except Exception as e: print("tz ERR", repr(e))
idx = pd.to_datetime(["2000-01-01 00:10:00","2000-01-01 00:40:00", "2000-01-01 03:00"])
print(idx.dtype)
