import numpy as np, pandas as pd, warnings
warnings.simplefilter("ignore")
from hydrodiy.data.containers import Vector
from hydrodiy.stat import transform
# C12 clone
v = Vector(["a","b"], [0,0], [-1,-1], [1,1], check_hitbounds=True, accept_nan=True)
c = v.clone()
print("clone flags", c.check_bounds, c.check_hitbounds, c.accept_nan)
v.values=[np.nan, 0]
try:
    c=v.clone(); print("clone nan ok", c.values)
except Exception as e: print("clone nan ERR", e)
v = Vector(["a","b"], [0,0], [-1,-1], [1,1], check_hitbounds=True)
v.values=[2,0]; print("hit", v.hitbounds)
d=v.to_dict(); w=Vector.from_dict(d); print("from_dict hit", w.hitbounds, d["hitbounds"])
print("clone hit", v.clone().hitbounds)
# params_sample mutates bounds
t = transform.YeoJohnson()
print(t.params.mins, t.params.maxs)
t.params_sample(5)
print(t.params.mins, t.params.maxs)
# Manly lam=0
m = transform.Manly(); m.xmax=10.; m.lam=0.
x=np.array([1.,2.,3.])
print("manly0", m.forward(x))
try: print(m.jacobian(x))
except Exception as e: print("manly jac err", e)
m.lam=1e-10
try: print(m.forward(x))
except Exception as e: print("manly eps err", repr(e))
# BoxCox at lam just above eps
for lam in [0., 5e-11, 1.0001e-10, 2e-10, 1e-9, 1e-8,1e-6,1e-3]:
    b = transform.BoxCox2(); b.nu=0.5; b.lam=lam
    x=np.array([0.1, 1., 2.2, 10., 1000.])
    xx=b.backward(b.forward(x))
    print(lam, np.max(np.abs(xx-x)/(np.abs(x)+0.5)))
