"""C12 prototype: exhaustive op sequences against a reference model"""
import numpy as np, itertools, warnings, sys, json, time
warnings.simplefilter("ignore")
from hydrodiy.data.containers import Vector
EPS=1e-10
class Model:
    def __init__(self, names, defaults, mins, maxs, chk, nan):
        self.names=list(names); self.mins=np.array(mins,float); self.maxs=np.array(maxs,float); self.defaults=np.array(defaults,float)
        self.chk=chk; self.nan=nan; self.values=self.defaults.copy(); self.hit=False
    def copy(self):
        m=Model(self.names,self.defaults,self.mins,self.maxs,self.chk,self.nan); m.values=self.values.copy(); m.hit=self.hit; return m
    def set1(self, i, v):
        if np.isnan(v) and not self.nan: return False
        if self.chk: self.hit = bool(v<self.mins[i] or v>self.maxs[i])
        self.values[i] = min(max(v,self.mins[i]),self.maxs[i]) if not np.isnan(v) else np.nan
        return True
    def setall(self, vec):
        vec=np.atleast_1d(np.array(vec,float))
        if len(vec)!=len(self.names): return False
        if np.isnan(vec).any() and not self.nan: return False
        self.hit = bool(self.chk and np.any((vec<self.mins)|(vec>self.maxs)))
        self.values=np.where(np.isnan(vec), np.nan, np.clip(vec,self.mins,self.maxs)); return True
    def reset(self): self.setall(self.defaults)
def observe(v):
    return (list(map(str,v.names)), v.values.tolist(), v.mins.tolist(), v.maxs.tolist(), v.defaults.tolist(), bool(v.hitbounds), bool(v.check_hitbounds), bool(v.accept_nan), bool(v.check_bounds))
def mobs(m):
    return (m.names, m.values.tolist(), m.mins.tolist(), m.maxs.tolist(), m.defaults.tolist(), m.hit, m.chk, m.nan, True)
def same(a,b):
    return json.dumps(a)==json.dumps(b)   # nan -> NaN text equal
configs=[]
for chk in [False,True]:
    for nan in [False,True]:
        configs.append((["a","b"],[0.,1.],[-1.,0.],[1.,np.inf],chk,nan))
        configs.append((["p"],[0.5],[0.],[1.],chk,nan))
        configs.append(([],[],[],[],chk,nan))
def ops_for(n):
    vals=[-5.,-1.,0.25,1.,7.,np.nan]
    ops=[("reset",),("clone",),("dict",),("clone_keep_orig",)]
    for i in range(n):
        for v in vals: ops.append(("attr",i,v)); 
        for v in [-5.,0.25,np.nan]: ops.append(("key",i,v))
    ops.append(("key_unknown",))
    if n: 
        for vec in ([-5.]*n,[0.25]*n,[7.]+[0.25]*(n-1),[np.nan]+[0.25]*(n-1),[0.25]*(n+1)): ops.append(("all",tuple(vec)))
    return ops
bad=0; nseq=0; t0=time.time(); first=None
DEPTH=int(sys.argv[1]) if len(sys.argv)>1 else 3
for cfg in configs:
    names,defaults,mins,maxs,chk,nan = cfg
    ops=ops_for(len(names))
    for seq in itertools.product(ops, repeat=DEPTH):
        nseq+=1
        v=Vector(names,defaults,mins,maxs,check_hitbounds=chk,accept_nan=nan); m=Model(names,defaults,mins,maxs,chk,nan)
        ok=True
        for op in seq:
            try:
                if op[0]=="reset": v.reset(); m.reset()
                elif op[0]=="clone":
                    o=v; v=v.clone(); m=m.copy()
                elif op[0]=="clone_keep_orig":
                    c=v.clone(); before=observe(v)
                    if len(names): c.values=[0.25]*len(names)
                    if not same(observe(v),before): ok=False
                elif op[0]=="dict":
                    v=Vector.from_dict(json.loads(json.dumps(v.to_dict(), default=lambda o:o.item() if hasattr(o,"item") else str(o))))
                elif op[0]=="attr":
                    accepted=m.copy().set1(op[1],op[2])
                    try:
                        setattr(v,names[op[1]],op[2]); raised=False
                    except ValueError: raised=True
                    if raised==accepted: ok=False
                    if accepted: m.set1(op[1],op[2])
                elif op[0]=="key":
                    accepted=m.copy().set1(op[1],op[2])
                    try: v[names[op[1]]]=op[2]; raised=False
                    except ValueError: raised=True
                    if raised==accepted: ok=False
                    if accepted: m.set1(op[1],op[2])
                elif op[0]=="key_unknown":
                    try: v["zz"]=1.; ok=False
                    except ValueError: pass
                elif op[0]=="all":
                    accepted=m.copy().setall(op[1])
                    try: v.values=list(op[1]); raised=False
                    except ValueError: raised=True
                    if raised==accepted: ok=False
                    if accepted: m.setall(op[1])
            except Exception as e:
                ok=False; 
            if not same(observe(v), mobs(m)): ok=False
            if not ok: break
        if not ok:
            bad+=1
            if first is None or len(str(seq))<len(str(first[1])): first=(cfg,seq, observe(v), mobs(m))
print("seqs", nseq, "bad", bad, "time", round(time.time()-t0,1)); print(first)
