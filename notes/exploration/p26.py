import numpy as np, warnings, math
warnings.simplefilter("ignore")
from hydrodiy.stat import transform as T
rng = np.random.default_rng(21)
EPS=1e-10; eps=np.finfo(float).eps
def logu(lo,hi,size=None): return np.exp(rng.uniform(np.log(lo),np.log(hi),size))
res={}
def rec(k,e,info=None,tol=1e-6):
    res.setdefault(k,[]).append(e)
    if not e<tol and sum(1 for x in res[k] if not x<tol)<4: print("FAIL",k,e,info)
SP=[0., 1e-11, -1e-11, 1.0001e-10,-1.0001e-10, 2e-10, -2e-10, 1e-8, 1e-6,1e-3,-1e-3, 1., 2., 3., -1., 0.5]
def fd5(f,x,h): return (-f(x+2*h)+8*f(x+h)-8*f(x-h)+f(x-2*h))/(12*h)
def pow2(v): return 2.0**np.floor(np.log2(v))
for it in range(4000):
    # Logit fb with conditioning region
    t=T.Logit(); lower=float(rng.choice([0., rng.normal()*100, -1e6, 1e3])); logdelta=float(rng.uniform(-10,10)); t.params.values=[lower,logdelta]; delta=math.exp(logdelta)
    eta = 4e8*eps*(abs(lower)+delta)/delta
    if eta<0.5:
        Y=min(30., -math.log(eta)); y0=rng.uniform(-Y,Y,size=10)
        yb=t.forward(t.backward(y0)); rec("Logit_fb", np.max(np.abs(yb-y0)/(1+np.abs(y0))), (lower,logdelta))
        x=t.backward(y0); h=pow2(np.minimum(x-lower, lower+delta-x)*1e-3)
        ok = (h>0)&(x-2*h>lower)&(x+2*h<lower+delta)&(h > 1e5*eps*(abs(lower)+delta))
        if ok.any():
            j=t.jacobian(x[ok]); jn=fd5(t.forward,x[ok],h[ok]); rec("Logit_jac", np.max(np.abs(j-jn)/np.abs(jn)), (lower,logdelta), 1e-4)
    # BoxCox family
    mininu=float(rng.choice([EPS,1e-3,0.5])); minilam=float(rng.choice([0.,-1.,-2.5]))
    lam = float(rng.choice([v for v in SP if minilam<=v<=3])) if rng.uniform()<0.4 else float(rng.uniform(minilam,3))
    nu = mininu+float(rng.choice([0,logu(1e-6,1e3)]))
    Lmax = 20. if abs(lam)<1e-12 else min(20.,13.8/abs(lam))
    z=np.exp(rng.uniform(-Lmax,Lmax,size=12)); z=z[z>mininu*1.001]
    if len(z)==0: continue
    x=z-nu
    for name in ["BoxCox2","BoxCox1lam","BoxCox1nu","BoxCox2sym"]:
        t=getattr(T,name)(mininu=mininu,minilam=minilam)
        if name=="BoxCox2" or name=="BoxCox2sym": t.params.values=[nu,lam]
        elif name=="BoxCox1lam": t.params.values=[lam]; t.constants.values=[nu]
        else: t.params.values=[nu]; t.constants.values=[lam]
        if name=="BoxCox2sym":
            xs = np.concatenate([z, -z]); xs = xs[np.abs(xs)+nu < np.exp(Lmax)]   # |x|+nu in range
            xs = xs[(np.abs(xs)+nu)>mininu*1.001]
            if len(xs)==0: continue
            y=t.forward(xs); xb=t.backward(y); rec(name+"_bf", np.max(np.abs(xb-xs)/(np.abs(xs)+nu)), (nu,lam,xs[np.argmax(np.abs(xb-xs)/(np.abs(xs)+nu))]))
            rec(name+"_fb", np.max(np.abs(t.forward(xb)-y)/(1+np.abs(y))), (nu,lam))
            h=pow2((np.abs(xs)+nu)*1e-3); ok=np.abs(xs)>3*h
            if ok.any():
                j=t.jacobian(xs[ok]); jn=fd5(t.forward,xs[ok],h[ok]); rec(name+"_jac", np.max(np.abs(j-jn)/np.abs(jn)), (nu,lam,xs[ok][np.argmax(np.abs(j-jn)/np.abs(jn))]), 1e-4)
        else:
            y=t.forward(x); xb=t.backward(y); rec(name+"_bf", np.max(np.abs(xb-x)/(np.abs(x)+nu)), (nu,lam))
            rec(name+"_fb", np.max(np.abs(t.forward(xb)-y)/(1+np.abs(y))), (nu,lam))
            h=pow2(z*1e-3); ok=(z-2*h>mininu*1.001)
            if ok.any():
                j=t.jacobian(x[ok]); jn=fd5(t.forward,x[ok],h[ok]); rec(name+"_jac", np.max(np.abs(j-jn)/np.abs(jn)), (nu,lam), 1e-4)
    # Manly lam=0
    t=T.Manly(); xmax=float(logu(1e-3,1e4)); t.params.values=[0.]; t.constants.values=[xmax]
    xx=rng.normal(size=5)*xmax; rec("Manly0_bf", np.max(np.abs(t.backward(t.forward(xx))-xx)/(np.abs(xx)+xmax)), None)
    rec("Manly0_jac", np.max(np.abs(t.jacobian(xx)-1/xmax)*xmax), None, 1e-4)
for k,v in sorted(res.items()): print(f"{k:16s} max={np.nanmax(v):.3e} nfail={np.sum(~(np.array(v)<(1e-4 if 'jac' in k else 1e-6)))} n={len(v)}")
