import numpy as np, pandas as pd, warnings, math
warnings.simplefilter("ignore")
from hydrodiy.stat import metrics, sutils
from scipy.stats import norm
rng = np.random.default_rng(15)
bad={}
def B(k, info):
    bad[k]=bad.get(k,0)+1
    if bad[k]<4: print(k, info)
maps=[lambda x: np.exp(x/10), lambda x: np.arctan(x/10), lambda x: x**3+x, lambda x: 3*x-7, lambda x: 0.001*x+1e3]
deg=0
for it in range(3000):
    n=int(rng.integers(2,9)); m=int(rng.integers(1,6))
    sim = rng.integers(-6,7,size=(n,m)).astype(float)/2; obs = rng.permutation(np.arange(-n,n))[:n].astype(float)/2+0.25
    D=metrics.dscore(obs,sim)
    if np.isnan(D): deg+=1; continue
    if not (0<=D<=1): B("range",D)
    f=maps[rng.integers(0,len(maps))]; g=maps[rng.integers(0,len(maps))]
    D2=metrics.dscore(f(obs),sim); D3=metrics.dscore(obs,g(sim)); perm=rng.permutation(m); D4=metrics.dscore(obs,np.ascontiguousarray(sim[:,perm]))
    # independent member permutation per forecast
    sim5=np.array([r[rng.permutation(m)] for r in sim]); D5=metrics.dscore(obs,sim5)
    for nm,d in [("obsmap",D2),("simmap",D3),("perm",D4),("permrow",D5)]:
        if abs(d-D)>1e-12: B(nm,(D,d,obs,sim))
    # perfect / inverse
    base = obs[:,None]*4+rng.integers(0,3,size=(n,m))  # preserves ordering between forecasts? obs spacing 0.5*4=2 > spread 2 -> ties possible
    base = obs[:,None]*8+rng.integers(0,3,size=(n,m))
    if abs(metrics.dscore(obs,base)-1)>1e-12: B("perfect",(obs,base))
    if abs(metrics.dscore(obs,-base))>1e-12: B("inverse",(obs,base))
    # pit
    ens = rng.integers(-5,6,size=(n,m)).astype(float); o = rng.integers(-5,5,size=n)+0.5
    for random in [False,True]:
        cst=float(rng.uniform(0,0.5)); np.random.seed(3)
        p,s = metrics.pit(o, ens, random=random, cst=cst, censor=-2.)
        if (p<0).any() or (p>1).any(): B("pitrange",p)
        cnt=(ens<o[:,None]).sum(axis=1)
        order=np.argsort(cnt); 
        for a,b in zip(order[:-1],order[1:]):
            if cnt[a]<cnt[b] and not p[a]<p[b]: B("pitmono",(cnt,p))
            if cnt[a]==cnt[b] and abs(p[a]-p[b])>1e-12: B("piteq",(cnt,p))
        es=(o<=-2.)&((ens<=-2.).sum(axis=1)>0)
        if not np.array_equal(s,es): B("sudo",(s,es))
    for ty in ["CV","KS","AD"]:
        np.random.seed(1); st_,pv,_=metrics.alpha(o,ens,type=ty)
        if not (0<=pv<=1): B("alpha_"+ty,pv)
    # cvm
    u=rng.uniform(size=int(rng.integers(1,300))); cv,pv=metrics.cramer_von_mises_test(rng.permutation(u))
    nn=len(u); s=np.sort(u); e=1/(12*nn)+np.sum(((2*np.arange(1,nn+1)-1)/(2*nn)-s)**2)
    if abs(cv-e)>1e-12 or not (0<=pv<=1): B("cvm",(cv,e,pv))
print("C10", bad, "degenerate", deg)
bad={}
for it in range(1500):
    ns=int(rng.integers(1,200)); npar=int(rng.integers(1,7)); lo=rng.normal(size=npar)*10**rng.integers(-3,4,size=npar).astype(float); w=np.exp(rng.uniform(-5,5,size=npar)); hi=lo+w
    np.random.seed(it); S=sutils.lhs(ns,lo,hi)
    if S.shape!=(ns,npar): B("lhs_shape",S.shape)
    for j in range(npar):
        k=np.floor((S[:,j]-lo[j])/w[j]*ns).astype(int); k=np.clip(k,0,ns-1)
        # allow boundary rounding: use sorted positions
        srt=np.sort(S[:,j]); edges=lo[j]+w[j]*np.arange(ns+1)/ns
        tol=1e-9*(abs(lo[j])+w[j])
        if not (np.all(srt>=edges[:-1]-tol) and np.all(srt<=edges[1:]+tol)): B("lhs_strata",(ns,j))
    n=int(rng.integers(1,300)); c=float(rng.uniform(0,0.5)); pp=sutils.ppos(n,c)
    if not (np.all(np.diff(pp)>0) and pp[0]>0 and pp[-1]<1 and np.allclose(pp+pp[::-1],1,atol=1e-12)): B("ppos",(n,c))
    x = rng.integers(-5,6,size=n).astype(float) if it%2 else rng.normal(size=n)
    un,rk=sutils.standard_normal(x)
    o=np.argsort(x,kind="stable"); xs=x[o]; us=np.asarray(un)[o]
    for a in range(n-1):
        if xs[a]<xs[a+1] and not us[a]<us[a+1]: B("sn_mono",()); break
        if xs[a]==xs[a+1] and us[a]!=us[a+1]: B("sn_tie",()); break
    # pareto
    npt=int(rng.integers(0,40)); nd=int(rng.integers(1,6)); P=rng.integers(-2,3,size=(npt,nd)).astype(float); P[rng.uniform(size=P.shape)<0.1]=np.nan
    for ori in [1,-1]:
        dm=sutils.pareto_front(P,ori)
        e=np.zeros(npt,int)
        for i in range(npt):
            for j in range(npt):
                if i==j: continue
                d=P[j]-P[i]; 
                if all(np.isnan(dd) or ori*dd>0 for dd in d): e[i]=1; break
        if not np.array_equal(dm,e): B("pareto",(P,ori,dm,e))
    if npt: 
        Pc=rng.integers(-2,3,size=(npt,nd)).astype(float)
        if sutils.pareto_front(Pc,1).min()!=0: B("pareto_empty",Pc)
        if not np.array_equal(sutils.pareto_front(Pc,-1), sutils.pareto_front(-Pc,1)): B("pareto_neg",Pc)
print("C20", bad)
