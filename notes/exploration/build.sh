#!/bin/bash
# usage: build.sh <srcroot> <outdir> [asan]
set -e
SRC=$1/src/hydrodiy; OUT=$2; MODE=$3
mkdir -p $OUT
PYINC=/root/.pyenv/versions/3.12.1/include/python3.12
NPINC=/venv/lib/python3.12/site-packages/numpy/_core/include
if [ "$MODE" = "asan" ]; then
  CC="clang -O1 -g -fno-omit-frame-pointer -fsanitize=address,undefined -fno-sanitize-recover=undefined -shared-libasan"
else
  CC="gcc -O2 -g0 -fno-strict-overflow"
fi
SFX=cpython-312-x86_64-linux-gnu.so
( $CC -shared -fPIC -w -I$PYINC -I$NPINC $SRC/data/c_hydrodiy_data.c $SRC/data/c_dateutils.c $SRC/data/c_qualitycontrol.c $SRC/data/c_dutils.c $SRC/data/c_var2h.c $SRC/data/c_baseflow.c -o $OUT/c_hydrodiy_data.$SFX -lm ) &
( $CC -shared -fPIC -w -I$PYINC -I$NPINC $SRC/stat/c_hydrodiy_stat.c $SRC/stat/c_crps.c $SRC/stat/c_dscore.c $SRC/stat/c_olsleverage.c $SRC/stat/c_armodels.c $SRC/stat/ADinf.c $SRC/stat/AnDarl.c $SRC/stat/c_andersondarling.c $SRC/stat/c_paretofront.c -o $OUT/c_hydrodiy_stat.$SFX -lm ) &
( $CC -shared -fPIC -w -I$PYINC -I$NPINC $SRC/gis/c_hydrodiy_gis.c $SRC/gis/c_grid.c $SRC/gis/c_catchment.c $SRC/gis/c_points_inside_polygon.c -o $OUT/c_hydrodiy_gis.$SFX -lm ) &
wait
ls -la $OUT
