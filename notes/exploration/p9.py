import numpy as np, itertools, math, warnings, os, sys, time
warnings.simplefilter("ignore")
from hydrodiy.gis.grid import Grid, Catchment, voronoi
rng = np.random.default_rng(4)
bad=0; nolap=0; tot=0
for it in range(2000):
    nr,nc = rng.integers(1,13,size=2)
    csz = float(rng.choice([0.5,1.,2.,0.25]))
    xll,yll = rng.integers(-20,20,size=2)*csz/2
    fd = Grid("fd", nc, nr, cellsize=csz, xllcorner=xll, yllcorner=yll, dtype=np.int64)
    ca = Catchment("c", fd)
    k = rng.integers(1, nr*nc+1)
    cells = np.sort(rng.choice(nr*nc, size=k, replace=False)).astype(np.int64)
    ca._idxcells_area = cells; ca._idxcells_area_filled = cells
    ratio = float(rng.choice([1,2,3,4, 1.5]))
    C = csz*ratio
    gx = xll + rng.integers(-8,8)*csz/4 ; gy = yll + rng.integers(-8,8)*csz/4
    gnr,gnc = rng.integers(1,6,size=2)
    g = Grid("g", gnc, gnr, cellsize=C, xllcorner=gx, yllcorner=gy)
    xy = fd.cell2coord(cells)
    # model
    exp = {}
    for (x,y) in xy:
        col = math.floor((x-gx)/C); row = gnr-1-math.floor((y-gy)/C)
        if 0<=col<gnc and 0<=row<gnr:
            exp[row*gnc+col] = exp.get(row*gnc+col,0)+ (csz/C)**2
    tot+=1
    try:
        ag, idx, w = ca.intersect(g)
    except Exception as e:
        if exp: bad+=1; print("ERR with overlap", repr(e))
        else: nolap+=1
        continue
    got = dict(zip(idx.tolist(), w.tolist()))
    ok = set(got)==set(exp) and all(abs(got[k]-exp[k])<1e-9 for k in exp) and len(idx)==len(set(idx.tolist()))
    # weight grid placement
    rc = g.cell2rowcol(idx)
    for (r,c),ww in zip(rc,w):
        if abs(ag.data[r-ag.parentgrid_rows_start, c-ag.parentgrid_cols_start]-ww)>1e-12: ok=False
    if abs(ag.data.sum()-w.sum())>1e-9: ok=False
    # georef of area grid
    x0 = gx + ag.parentgrid_cols_start*C; y0 = gy + (gnr-1-ag.parentgrid_rows_end)*C
    if abs(ag.xllcorner-x0)>1e-9 or abs(ag.yllcorner-y0)>1e-9: ok=False
    if not ok:
        bad+=1
        if bad<5: print("C16", nr,nc,csz,xll,yll,cells,C,gx,gy,gnr,gnc,got,exp)
    # voronoi
    npts = rng.integers(1,7)
    pts = np.column_stack([xll+rng.integers(-2,2*nc+2,size=npts)*csz/2, yll+rng.integers(-2,2*nr+2,size=npts)*csz/2])
    wv = voronoi(ca, pts)
    cnt = np.zeros(npts)
    for (x,y) in xy:
        d = np.hypot(pts[:,0]-x, pts[:,1]-y); cnt[np.argmin(d)]+=1
    if not np.allclose(wv, cnt/len(xy)) or abs(wv.sum()-1)>1e-12 or (wv<0).any():
        bad+=1
        if bad<8: print("VOR", pts, wv, cnt/len(xy))
print("bad", bad, "nolap", nolap, tot)
