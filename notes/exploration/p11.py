import numpy as np, warnings, math
warnings.simplefilter("ignore")
from hydrodiy.stat import transform as T
rng = np.random.default_rng(5)
EPS=1e-10
def logu(lo,hi,size=None): return np.exp(rng.uniform(np.log(lo),np.log(hi),size))
def pick_lam(lo, hi, specials):
    if rng.uniform()<0.4: 
        s = [v for v in specials if lo<=v<=hi]; return float(rng.choice(s))
    return float(rng.uniform(lo,hi))
res = {}
def rec(name, err):
    res.setdefault(name, []).append(err)
N=4000
for it in range(N):
    # BoxCox2
    mininu = float(rng.choice([EPS, 1e-3, 0.5])); minilam = float(rng.choice([0., -1., -2.5]))
    t = T.BoxCox2(mininu=mininu, minilam=minilam)
    nu = mininu + float(rng.choice([0, logu(1e-6, 1e3)])); lam = pick_lam(minilam, 3., [0., 1e-11, -1e-11, 1.0001e-10, -1.0001e-10, 2e-10, 1e-8, 1e-6,1e-3,-1e-3, 1., 2., 3., -1., 0.5])
    t.params.values=[nu,lam]
    nu, lam = t.params.values
    # x domain: x+nu = exp(L) with |lam*L|<=13.8, L in [-20,20]; x+nu > mininu*(1+1e-3)
    Lmax = 20. if abs(lam)<1e-12 else min(20., 13.8/abs(lam))
    L = rng.uniform(-Lmax, Lmax, size=20)
    z = np.exp(L); z = z[z>mininu*1.001]
    if len(z)==0: continue
    x = z - nu
    y = t.forward(x); xb = t.backward(y)
    scale = np.abs(x)+nu
    e = np.max(np.abs(xb-x)/scale)
    rec("BoxCox2_bf", e)
    if not (e<1e-6): print("BC2 bf", nu, lam, x[np.argmax(np.abs(xb-x)/scale)], e)
    # fb: y in range of forward
    yb = t.forward(t.backward(y))
    e2 = np.max(np.abs(yb-y)/(np.abs(y)+1))
    rec("BoxCox2_fb", e2)
    if not (e2<1e-6): print("BC2 fb", nu, lam, e2)
for k,v in res.items(): print(k, np.nanmax(v), np.sum(~(np.array(v)<1e-6)), len(v))
