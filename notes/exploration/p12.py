import numpy as np, warnings, math
warnings.simplefilter("ignore")
from hydrodiy.stat import transform as T
rng = np.random.default_rng(6)
EPS=1e-10
def logu(lo,hi,size=None): return np.exp(rng.uniform(np.log(lo),np.log(hi),size))
def pick(lo, hi, specials, p=0.4):
    if rng.uniform()<p:
        s = [v for v in specials if lo<=v<=hi]; return float(rng.choice(s))
    return float(rng.uniform(lo,hi))
res = {}
def rec(name, err, info=None, tol=1e-6):
    res.setdefault(name, []).append(err)
    if not err<tol and len(res[name])<2000 and sum(1 for e in res[name] if not e<tol)<4: print("FAIL", name, err, info)
def fd5(f, x, h):
    return (-f(x+2*h)+8*f(x+h)-8*f(x-h)+f(x-2*h))/(12*h)
def pow2(v): return 2.0**np.floor(np.log2(v))
N=3000
SP=[0., 1e-11, -1e-11, 2e-10, -2e-10, 1e-8, 1e-6,1e-3,-1e-3, 1., 2., 3., -1., 0.5]
for it in range(N):
    # ---- Logit
    t=T.Logit(); lower=float(rng.choice([0., rng.normal()*100, -1e6])); logdelta=float(rng.uniform(-10,10)); t.params.values=[lower,logdelta]
    lower,logdelta=t.params.values; delta=math.exp(logdelta)
    # u in (0,1) with logit |y|<=30
    y0 = rng.uniform(-30,30,size=10); u = 1/(1+np.exp(-y0))
    x = lower+delta*u
    x = x[(x>lower)&(x<lower+delta)]
    if len(x):
        xb=t.backward(t.forward(x)); 
        # conditioning: relative to distance to nearest bound
        sc = np.minimum(x-lower, lower+delta-x)
        rec("Logit_bf", np.max(np.abs(xb-x)/(np.abs(x)+delta)), (lower,logdelta))
        yb=t.forward(t.backward(y0)); rec("Logit_fb", np.max(np.abs(yb-y0)/(1+np.abs(y0))), (lower,logdelta,y0[np.argmax(np.abs(yb-y0))]))
    # ---- Log
    mininu=float(rng.choice([EPS,1e-3,0.5])); base=rng.choice([None,2.,10.,1.5, 0.5]); t=T.Log(mininu=mininu, base=base)
    nu = mininu+float(rng.choice([0,logu(1e-6,1e3)])); t.params.values=[nu]
    L=rng.uniform(-20,20,size=10); z=np.exp(L); z=z[z>mininu*1.001]; x=z-nu
    if len(x):
        y=t.forward(x); xb=t.backward(y); rec("Log_bf", np.max(np.abs(xb-x)/(np.abs(x)+nu)), (nu,base))
        rec("Log_fb", np.max(np.abs(t.forward(t.backward(y))-y)/(1+np.abs(y))), (nu,base))
        # jacobian
        h = pow2(z*1e-3); xs = x
        j=t.jacobian(xs); jn=fd5(t.forward, xs, h)
        rec("Log_jac", np.max(np.abs(j-jn)/np.abs(jn)), (nu,base), 1e-4)
    # ---- YeoJohnson
    t=T.YeoJohnson(); nu=float(rng.choice([0., rng.normal()*10])); scale=float(rng.choice([1e-5,1.,logu(1e-5,1e3)])); lam=pick(-1,3,[0.,2.,1e-9,-1e-9,2e-8,-2e-8,1e-6,2-1e-6,2+1e-6,2-1e-4,2+1e-4,2-1e-9,1.,-1.,3.,0.5,1.5])
    t.params.values=[nu,scale,lam]
    # w = nu+scale*x ; choose w s.t. transform magnitude moderate: |w|<= exp(Lmax)
    def wgen(n):
        sgn = rng.choice([-1,1],size=n); expo = np.where(sgn>0, lam, 2-lam)
        Lmax = np.where(np.abs(expo)<1e-12, 20., np.minimum(20., 13.8/np.maximum(np.abs(expo),1e-300)))
        L = rng.uniform(-15, 1, size=n)*0 + rng.uniform(-1,1,size=n)*Lmax
        return sgn*np.expm1(np.abs(L))  # |w|+1 = exp(|L|)
    w=wgen(10); x=(w-nu)/scale
    y=t.forward(x); xb=t.backward(y)
    rec("YJ_bf", np.max(np.abs(xb-x)*scale/(np.abs(w)+1+abs(nu))), (nu,scale,lam,x[np.argmax(np.abs(xb-x))]))
    rec("YJ_fb", np.max(np.abs(t.forward(t.backward(y))-y)/(1+np.abs(y))), (nu,scale,lam))
    # jacobian where stencil doesn't straddle w=EPS
    h = pow2((np.abs(w)+1)*1e-3/scale)
    okk = (np.abs(w-EPS) > 3*h*scale)
    if okk.any():
        xs=x[okk]; hs=h[okk]
        j=t.jacobian(xs); jn=fd5(t.forward, xs, hs)
        rec("YJ_jac", np.max(np.abs(j-jn)/np.abs(jn)), (nu,scale,lam, xs[np.argmax(np.abs(j-jn)/np.abs(jn))]), 1e-4)
    # ---- LogSinh
    t=T.LogSinh(); loga=float(rng.uniform(-20,0)); logb=float(rng.uniform(-5,5)); xmax=float(logu(1e-3,1e4)); t.params.values=[loga,logb]; t.constants.values=[xmax]
    a=math.exp(loga); b=math.exp(logb)
    # w=a+b*x/xmax in [1e-4, 50]
    w=np.concatenate([logu(1e-4,50,size=8), [max(a,1e-4)]]) ; w=w[w>=1e-4]; x=(w-a)/b*xmax
    y=t.forward(x); xb=t.backward(y)
    rec("LogSinh_bf", np.max(np.abs(xb-x)/(np.abs(x)+xmax*a/b+xmax/b*w)), (loga,logb,xmax, w[np.argmax(np.abs(xb-x))]))
    rec("LogSinh_fb", np.max(np.abs(t.forward(t.backward(y))-y)/(1/b+np.abs(y))), (loga,logb,xmax))
    h=pow2(w*1e-3*xmax/b); j=t.jacobian(x); jn=fd5(t.forward,x,h)
    rec("LogSinh_jac", np.max(np.abs(j-jn)/np.abs(jn)), (loga,logb,xmax,w[np.argmax(np.abs(j-jn)/np.abs(jn))]), 1e-4)
    # ---- Reciprocal
    mininu=float(rng.choice([EPS,1e-3,0.5])); t=T.Reciprocal(mininu=mininu); nu=mininu+float(rng.choice([0,logu(1e-6,1e3)])); t.params.values=[nu]
    z=logu(max(mininu*1.001,1e-8),1e8,size=10); x=z-nu   # y=-1/z must be < -mininu => z<1/mininu
    z=z[z<1/mininu*0.999]; x=z-nu
    if len(x):
        y=t.forward(x); xb=t.backward(y); rec("Recip_bf", np.max(np.abs(xb-x)/(np.abs(x)+nu)), (nu,mininu))
        rec("Recip_fb", np.max(np.abs(t.forward(t.backward(y))-y)/np.abs(y)), (nu,))
        h=pow2(z*1e-3); j=t.jacobian(x); jn=fd5(t.forward,x,h); rec("Recip_jac", np.max(np.abs(j-jn)/np.abs(jn)), (nu,), 1e-4)
    # ---- Sinh
    t=T.Sinh(); nu=float(rng.choice([0., rng.normal()*10])); scale=float(logu(1e-10,1e4)); t.params.values=[nu,scale]
    u = rng.choice([-1,1],size=10)*logu(1e-6,1e6,size=10); x=u/scale+nu
    y=t.forward(x); xb=t.backward(y); rec("Sinh_bf", np.max(np.abs(xb-x)/(np.abs(x-nu)+abs(nu))), (nu,scale,u[np.argmax(np.abs(xb-x))]))
    rec("Sinh_fb", np.max(np.abs(t.forward(t.backward(y))-y)/(1e-6+np.abs(y))), (nu,scale))
    h=pow2(np.maximum(np.abs(u),1.)*1e-3/scale); j=t.jacobian(x); jn=fd5(t.forward,x,h); rec("Sinh_jac", np.max(np.abs(j-jn)/np.abs(jn)), (nu,scale,u[np.argmax(np.abs(j-jn)/np.abs(jn))]), 1e-4)
    # ---- Manly
    t=T.Manly(); lam=pick(-5,5,[1e-3,-1e-3,1.,5.,-5.,0.1]); 
    if abs(lam)<1e-3: lam=1e-3
    xmax=float(logu(1e-3,1e4)); t.params.values=[lam]; t.constants.values=[xmax]
    u=rng.uniform(-13.8/abs(lam), 13.8/abs(lam), size=10); x=u*xmax
    y=t.forward(x); xb=t.backward(y); rec("Manly_bf", np.max(np.abs(xb-x)/(np.abs(x)+xmax/abs(lam))), (lam,xmax,u[np.argmax(np.abs(xb-x))]))
    rec("Manly_fb", np.max(np.abs(t.forward(t.backward(y))-y)/(np.abs(y)+1/abs(lam))), (lam,xmax))
    h=pow2(np.full(10, 1e-3/abs(lam)*xmax)); j=t.jacobian(x); jn=fd5(t.forward,x,h); rec("Manly_jac", np.max(np.abs(j-jn)/np.abs(jn)), (lam,xmax), 1e-4)
    # ---- Softmax
    t=T.Softmax(); k=int(rng.integers(1,5)); n=int(rng.integers(1,4))
    raw = logu(1e-6,1,size=(n,k+1)); raw/=raw.sum(axis=1)[:,None]; x=raw[:,:k]  # rows sum<1, remainder raw[:,k]
    if (x.sum(axis=1) < 1-1e-6).all():
        y=t.forward(x); xb=t.backward(y); rec("Softmax_bf", np.max(np.abs(xb-x)/x), (x,))
        rec("Softmax_fb", np.max(np.abs(t.forward(t.backward(y))-y)/(1+np.abs(y))), (x,))
        # jac determinant
        for i in range(n):
            xi=x[i]; J=np.zeros((k,k))
            for c in range(k):
                h=pow2(min(xi[c], 1-xi.sum())*1e-3); e=np.zeros(k); e[c]=h
                f=lambda s: t.forward((xi+s*e)[None,:])[0]
                J[:,c]=(-f(2)+8*f(1)-8*f(-1)+f(-2))/(12*h)
            det=np.linalg.det(J); j=t.jacobian(xi[None,:])[0]
            rec("Softmax_jac", abs(det-j)/abs(det), (xi,), 1e-4)
for k,v in sorted(res.items()): print(f"{k:14s} max={np.nanmax(v):.3e} nfail={np.sum(~(np.array(v)<(1e-4 if 'jac' in k else 1e-6)))} n={len(v)}")
