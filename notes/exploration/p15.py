import numpy as np, pandas as pd, warnings
warnings.simplefilter("ignore")
import matplotlib; matplotlib.use("Agg")
from hydrodiy.stat import sutils
from hydrodiy.plot import boxplot, violinplot
rng = np.random.default_rng(8)
X = pd.DataFrame(rng.normal(size=(20,2)), columns=["a","b"]); y = rng.normal(size=20)
try:
    r = sutils.lstsq(X, y, add_intercept=True); print("ok", X.columns.tolist())
except Exception as e: print("ERR", repr(e), X.columns.tolist())
# C20 boxplot stats
def ref_stats(col, bc, wc):
    v = col[np.isfinite(col)]
    q = [(100-wc)/2, (100-bc)/2, 50, 100-(100-bc)/2, 100-(100-wc)/2]
    if len(v)>3: return np.percentile(v,q), len(v), v.mean(), v.max(), v.min()
    return None, len(v), None,None,None
bad=0
for it in range(500):
    n = rng.integers(0,40); k=rng.integers(1,4)
    if n==0: print('n0', boxplot.Boxplot(np.zeros((0,k))).stats); continue
    d = rng.integers(-3,4,size=(n,k)).astype(float) if rng.integers(0,2) else rng.normal(size=(n,k))
    m = rng.uniform(size=(n,k)); d[m<0.1]=np.nan; d[(m>0.1)&(m<0.15)]=np.inf; d[(m>0.15)&(m<0.2)]=-np.inf
    bc = rng.uniform(40,99); wc = rng.uniform(bc+0.5, 100)
    try:
        st = boxplot.Boxplot(d, box_coverage=bc, whiskers_coverage=wc).stats
    except Exception as e:
        bad+=1; print("Boxplot EXC", n,k, repr(e)[:100]); continue
    for j in range(k):
        q, cnt, mean, mx, mn = ref_stats(d[:,j], bc, wc)
        s = st.iloc[:, j]
        if s["count"]!=cnt: bad+=1; print("count", s["count"], cnt)
        labs = ["%0.1f%%"%x for x in [(100-wc)/2, (100-bc)/2, 50, 100-(100-bc)/2, 100-(100-wc)/2]]
        vals = np.array([s[l] for l in labs], dtype=float)
        if q is not None:
            if not np.allclose(vals, q) or not np.isclose(s["mean"],mean) or s["max"]!=mx or s["min"]!=mn: bad+=1; print("stats", s, q)
        else:
            if not np.isnan(vals).all(): bad+=1; print("nan expected", s)
print("bad", bad)
# by groups
bad=0
for it in range(300):
    n = rng.integers(5,60); g = rng.integers(2,5)
    d = rng.normal(size=n); by = rng.integers(0,g,size=n)
    m = rng.uniform(size=n); d[m<0.1]=np.nan; d[(m>0.1)&(m<0.15)]=np.inf
    if len(np.unique(by))<2: continue
    try:
        st = boxplot.Boxplot(pd.Series(d), by=pd.Series(by)).stats
    except Exception as e:
        bad+=1; print("by EXC", repr(e)[:200]); continue
    for cat in np.unique(by):
        q, cnt, mean, mx, mn = ref_stats(d[by==cat], 50, 90)
        if cat not in st.columns: 
            print("missing cat", cat, cnt, st.columns.tolist()); bad+=1; continue
        s = st[cat]
        if s["count"]!=cnt: bad+=1; print("bycount", s["count"], cnt)
        if q is not None and not np.allclose([s["5.0%"],s["25.0%"],s["50.0%"],s["75.0%"],s["95.0%"]], q): bad+=1; print("bystats", s, q)
print("by bad", bad)
# violin
for desc, d in [("inf", np.array([1.,2,3,4,np.inf,5,6])), ("const", np.ones(10)), ("nan", np.array([1.,2,np.nan,4,5,6])), ("few", np.array([1.,2.])), ("empty", np.zeros(0))]:
    try:
        np.random.seed(1); v = violinplot.Violin(pd.DataFrame({"a":d})); print(desc, v.stats.T.values, np.nanmin(v.kde_y.values), np.nanmax(v.kde_y.values))
    except Exception as e: print(desc, "EXC", repr(e)[:100])
