"""C02 monotonicity prototype: pairs x1<x2 at separations from 1 ulp to far apart"""
import numpy as np, warnings, math
warnings.simplefilter("ignore")
from hydrodiy.stat import transform as T
rng = np.random.default_rng(23); eps=np.finfo(float).eps; EPS=1e-10
def logu(lo,hi,size=None): return np.exp(rng.uniform(np.log(lo),np.log(hi),size))
viol={}; strictfail={}; n=0
def test(name, t, x, noise):
    """x sorted increasing domain points; noise = abs rounding scale of forward values"""
    global n
    y=np.asarray(t.forward(x), dtype=float)
    d=np.diff(y)
    n+=len(d)
    bad = d < -8*noise[:-1]
    if bad.any(): viol[name]=viol.get(name,0)+int(bad.sum()); 
    return d
for it in range(3000):
    for name in ["Log","BoxCox2","YeoJohnson","Sinh","Reciprocal","LogSinh","Manly","Logit","BoxCox2sym"]:
        k=int(rng.integers(0,45)); rel=2.0**-k
        if name=="Log":
            t=T.Log(base=rng.choice([None,2.,0.5])); nu=float(logu(1e-10,10)); t.nu=nu; z=logu(1e-6,1e6,size=6); z=np.sort(np.concatenate([z,z*(1+rel)])); x=z-nu; x=np.unique(x)
            if t.basefactor<0: continue   # base<1 -> decreasing; skip (documented?)
            y=t.forward(x); noise=eps*(np.abs(y)+ (1+nu/(x+nu))/abs(t.basefactor))
        elif name=="BoxCox2":
            t=T.BoxCox2(minilam=-2.5); nu=float(logu(1e-10,10)); lam=float(rng.choice([0,1e-11,2e-10,-2e-10,0.3,1,2.5,-1.7])); t.params.values=[nu,lam]
            Lmax=20 if lam==0 else min(20,13.8/abs(lam)); z=np.exp(rng.uniform(-Lmax,Lmax,size=6)); z=np.sort(np.concatenate([z,z*(1+rel)])); x=np.unique(z-nu)
            y=t.forward(x); noise=eps*(np.abs(y)+1+ np.power(x+nu,lam)*(1+nu/(x+nu)))
        elif name=="YeoJohnson":
            t=T.YeoJohnson(); nu=float(rng.normal()); sc=float(logu(1e-5,1e3)); lam=float(rng.choice([0,2,1,-1,3,0.5,1e-9,2-1e-6])); t.params.values=[nu,sc,lam]
            w=np.concatenate([rng.normal(size=4)*3, rng.normal(size=2)*1e-3]); w=np.sort(np.concatenate([w,w+np.abs(w)*rel+1e-300])); x=np.unique((w-nu)/sc)
            y=t.forward(x); ww=nu+x*sc; ex=np.where(ww>=EPS,lam,2-lam); noise=eps*(np.abs(y)+1+np.power(np.abs(ww)+1,ex)*(1+(abs(nu)+np.abs(ww))/(np.abs(ww)+1)))
        elif name=="Sinh":
            t=T.Sinh(); nu=float(rng.normal()); sc=float(logu(1e-5,1e3)); t.params.values=[nu,sc]; u=rng.normal(size=6)*10; u=np.sort(np.concatenate([u,u+np.abs(u)*rel])); x=np.unique(u/sc+nu)
            y=t.forward(x); noise=eps*(np.abs(y)+ (np.abs(x)+abs(nu))*sc/np.sqrt(1+((x-nu)*sc)**2))
        elif name=="Reciprocal":
            t=T.Reciprocal(); nu=float(logu(1e-10,10)); t.nu=nu; z=logu(1e-6,1e6,size=6); z=np.sort(np.concatenate([z,z*(1+rel)])); x=np.unique(z-nu); y=t.forward(x); noise=eps*np.abs(y)*(2+nu/(x+nu))
        elif name=="LogSinh":
            t=T.LogSinh(); loga=float(rng.uniform(-20,0)); logb=float(rng.uniform(-5,5)); xmax=float(logu(1e-3,1e4)); t.params.values=[loga,logb]; t.constants.values=[xmax]; a=math.exp(loga); b=math.exp(logb)
            w=logu(1e-4,50,size=6); w=np.sort(np.concatenate([w,w*(1+rel)])); w=w[w>a*1.001] if (w>a*1.001).any() else w; x=np.unique((w-a)/b*xmax); y=t.forward(x); ww=a+b*x/xmax; noise=eps*(np.abs(y)+(1+np.abs(np.log(ww))+ww)/b*3+ (a+np.abs(ww))/np.tanh(ww)/b)
        elif name=="Manly":
            t=T.Manly(); lam=float(rng.choice([0,1e-3,-1e-3,1,-5,5,0.1])); xmax=float(logu(1e-3,1e4)); t.params.values=[lam]; t.constants.values=[xmax]
            um=13.8/max(abs(lam),0.69); u=rng.uniform(-um,um,size=6); u=np.sort(np.concatenate([u,u+np.abs(u)*rel])); x=np.unique(u*xmax); y=t.forward(x); noise=eps*(np.abs(y)+(1+np.exp(lam*x/xmax))/max(abs(lam),1e-300) if lam!=0 else np.abs(y)*2)
        elif name=="Logit":
            t=T.Logit(); lower=float(rng.choice([0.,rng.normal()*10])); ld=float(rng.uniform(-5,5)); t.params.values=[lower,ld]; delta=math.exp(ld)
            uu=1/(1+np.exp(-rng.uniform(-15,15,size=6))); uu=np.sort(np.concatenate([uu,uu*(1+rel)])); uu=uu[(uu>1e-9)&(uu<1-1e-9)]; x=np.unique(lower+delta*uu); v=(x-lower)/delta; y=t.forward(x); noise=eps*(np.abs(y)+ (1+(abs(lower)+np.abs(x))/delta)/(v*(1-v))*2)
        else:
            t=T.BoxCox2sym(); nu=float(logu(1e-3,10)); lam=float(rng.choice([0,0.3,1,2.5])); t.params.values=[nu,lam]; ax=logu(1e-6,1e4,size=4); xx=np.concatenate([ax,-ax]); xx=np.sort(np.concatenate([xx,xx+np.abs(xx)*rel])); x=np.unique(xx); y=t.forward(x)
            y0=abs(math.log(nu)) if lam==0 else abs((nu**lam-1)/lam); noise=eps*(np.abs(y)+y0+1+np.power(np.abs(x)+nu,lam)*2)
        d=test(name,t,x,np.asarray(noise,dtype=float))
print("pairs",n,"violations",viol)
