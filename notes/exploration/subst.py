import sys
def sub(path, old, new, count=1):
    b = open(path, "rb").read()
    crlf = b"\r\n" in b
    o = old.encode(); n = new.encode()
    if crlf:
        o = o.replace(b"\r\n", b"\n").replace(b"\n", b"\r\n"); n = n.replace(b"\r\n", b"\n").replace(b"\n", b"\r\n")
    assert b.count(o) >= 1, (path, old)
    b = b.replace(o, n, count)
    open(path, "wb").write(b)
