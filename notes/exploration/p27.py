import numpy as np, warnings, math
warnings.simplefilter("ignore")
from hydrodiy.stat import transform as T
rng = np.random.default_rng(22)
EPS=1e-10; eps=np.finfo(float).eps
def logu(lo,hi,size=None): return np.exp(rng.uniform(np.log(lo),np.log(hi),size))
res={}
def rec(k,e,info=None,tol=1e-6):
    res.setdefault(k,[]).append(e)
    if not e<tol and sum(1 for x in res[k] if not x<tol)<4: print("FAIL",k,e,info)
SP=[0., 1e-11, -1e-11, 1.0001e-10,-1.0001e-10, 2e-10, -2e-10, 1e-8, 1e-6,1e-3,-1e-3, 1., 2., 3., -1., 0.5]
def fd5(f,x,h): return (-f(x+2*h)+8*f(x+h)-8*f(x-h)+f(x-2*h))/(12*h)
def pow2(v): return 2.0**np.floor(np.log2(v))
skipped=0
for it in range(6000):
    t=T.Logit(); lower=float(rng.choice([0., rng.normal()*100, -1e6, 1e3])); logdelta=float(rng.uniform(-10,10)); t.params.values=[lower,logdelta]; delta=math.exp(logdelta)
    eta = max(4e8*eps*(abs(lower)+delta)/delta, 1e-9/delta)   # also keep 10*EPS from the bounds
    if eta<0.25:
        Y=min(30., -math.log(eta)); y0=rng.uniform(-Y,Y,size=10)
        x=t.backward(y0); d=np.minimum(x-lower, lower+delta-x); h=pow2(d*1e-3)
        j=t.jacobian(x); jn=fd5(t.forward,x,h); rec("Logit_jac", np.max(np.abs(j-jn)/np.abs(jn)), (lower,logdelta,y0[np.argmax(np.abs(j-jn)/np.abs(jn))]), 1e-4)
        xb=t.backward(t.forward(x)); rec("Logit_bf", np.max(np.abs(xb-x)/(np.abs(x)+delta)))
    else: skipped+=1
    mininu=float(rng.choice([EPS,1e-3,0.5])); minilam=float(rng.choice([0.,-1.,-2.5]))
    lam = float(rng.choice([v for v in SP if minilam<=v<=3])) if rng.uniform()<0.4 else float(rng.uniform(minilam,3))
    nu = mininu+float(rng.choice([0,logu(1e-6,1e3)]))
    t=T.BoxCox2sym(mininu=mininu,minilam=minilam); t.params.values=[nu,lam]
    y0 = abs(math.log(nu)) if abs(lam)<=EPS else abs(math.expm1(lam*math.log(nu))/lam)
    Lmax = 20. if abs(lam)<1e-12 else min(20.,13.8/abs(lam)); Llo,Lhi=-Lmax,Lmax
    # eps*y0*exp(-lam*L) <= 1e-9  ->  -lam*L <= ln(1e-9/(eps*y0)) =: K
    K = math.log(1e-9/(eps*max(y0,1e-300)))
    if lam>0: Llo=max(Llo, -K/lam)
    elif lam<0: Lhi=min(Lhi, K/(-lam))
    elif K<0: Llo,Lhi=1,0
    Llo=max(Llo, math.log(mininu*1.001))
    if Llo>=Lhi: skipped+=1; continue
    z=np.exp(rng.uniform(Llo,Lhi,size=8)); ax=z-nu; ax=ax[ax>0]
    if len(ax)==0: continue
    xs=np.concatenate([ax,-ax])
    y=t.forward(xs); xb=t.backward(y); rec("Sym_bf", np.max(np.abs(xb-xs)/(np.abs(xs)+nu)), (nu,lam,xs[np.argmax(np.abs(xb-xs)/(np.abs(xs)+nu))]))
    rec("Sym_fb", np.max(np.abs(t.forward(xb)-y)/(1+np.abs(y))), (nu,lam))
    h=pow2((np.abs(xs)+nu)*1e-3); ok=np.abs(xs)>3*h
    if ok.any():
        j=t.jacobian(xs[ok]); jn=fd5(t.forward,xs[ok],h[ok]); rec("Sym_jac", np.max(np.abs(j-jn)/np.abs(jn)), (nu,lam,xs[ok][np.argmax(np.abs(j-jn)/np.abs(jn))]), 1e-4)
for k,v in sorted(res.items()): print(f"{k:16s} max={np.nanmax(v):.3e} nfail={np.sum(~(np.array(v)<(1e-4 if 'jac' in k else 1e-6)))} n={len(v)}")
print("skipped", skipped)
