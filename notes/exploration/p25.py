import numpy as np, warnings
warnings.simplefilter("ignore")
from hydrodiy.data import dutils
from hydrodiy.data.signatures import goue
rng=np.random.default_rng(16)
bad=0; nt=0
for it in range(5000):
    n=int(rng.integers(1,30)); 
    idx=np.sort(rng.integers(-3,4,size=n)) if it%3 else np.cumsum(rng.integers(0,2,size=n))+int(rng.choice([-2**31, 0, 2**31-40]))
    x=rng.normal(size=n)*10; x[rng.uniform(size=n)<0.25]=np.nan
    if it%7==0: x=np.abs(x)*-1
    maxnan=int(rng.integers(0,5)); op=int(rng.integers(0,4))
    out=dutils.aggregate(idx,x,op,maxnan)
    groups=[x[idx==g] for g in np.unique(idx)]
    if len(out)!=len(groups): bad+=1; print("len"); continue
    for o,g in zip(out,groups):
        nn=np.isnan(g).sum(); v=g[~np.isnan(g)]
        if nn>maxnan:
            if not np.isnan(o): bad+=1; print("expected nan",g,o,op,maxnan)
        elif len(v)==0:
            if op==0 and o!=0: bad+=1; print("empty sum",o)
        else:
            nt+=1
            e=[v.sum(),v.mean(),v.max(),v[-1]][op]
            if abs(o-e)>1e-9*max(1,abs(e)): bad+=1; print("val",op,g,o,e)
    fh=dutils.flathomogen(idx,x,maxnan)
    for g in np.unique(idx):
        m=idx==g; xg=x[m]; fg=fh[m]; nn=np.isnan(xg).sum()
        if not np.array_equal(np.isnan(fg)|(nn>maxnan), np.isnan(xg)|(nn>maxnan)): bad+=1; print("fh nan")
        if nn<=maxnan and (~np.isnan(xg)).any():
            if not np.allclose(fg[~np.isnan(xg)], np.nanmean(xg)): bad+=1; print("fh mean")
    # decreasing index rejected
    if n>=2:
        j=int(rng.integers(1,n)); idx2=idx.copy(); idx2[j]=idx2[j-1]-1
        if idx2[j]>=-2**31:
            for fn in (lambda: dutils.aggregate(idx2,x,op,maxnan), lambda: dutils.flathomogen(idx2,x,maxnan)):
                try: fn(); bad+=1; print("not rejected")
                except ValueError: pass
print("bad",bad,"nontrivial",nt)
