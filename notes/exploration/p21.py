import numpy as np, pandas as pd, warnings, math
warnings.simplefilter("ignore")
from hydrodiy.stat import metrics, transform
from scipy.stats import rankdata
rng = np.random.default_rng(14)
bad={}
def B(k, info):
    bad[k]=bad.get(k,0)+1
    if bad[k]<4: print(k, info)
def close(a,b,tol=1e-9): 
    if np.isnan(a) and np.isnan(b): return True
    return abs(a-b)<=tol*max(1,abs(a),abs(b))
def mk_trans():
    k=rng.integers(0,5)
    if k==0: return transform.Identity(), (lambda x:x)
    if k==1:
        t=transform.Log(); nu=float(np.exp(rng.uniform(-5,2))); t.nu=nu; return t,(lambda x: np.log(x+nu))
    if k==2:
        t=transform.BoxCox2(); nu=float(np.exp(rng.uniform(-5,2))); lam=float(rng.choice([0.,0.2,0.5,1.,2.])); t.params.values=[nu,lam]
        return t,(lambda x: np.log(x+nu) if lam==0 else ((x+nu)**lam-1)/lam)
    if k==3:
        t=transform.Reciprocal(); nu=float(np.exp(rng.uniform(-3,2))); t.nu=nu; return t,(lambda x: -1/(x+nu))
    t=transform.Sinh(); nu=float(rng.normal()); sc=float(np.exp(rng.uniform(-3,3))); t.params.values=[nu,sc]; return t,(lambda x: np.arcsinh((x-nu)*sc))
for it in range(3000):
    n=int(rng.integers(2,30)); obs=np.exp(rng.normal(size=n)); sim=obs*np.exp(rng.normal(size=n)*0.5)
    t, f = mk_trans()
    to, ts = f(obs), f(sim)
    mo, so = to.mean(), to.std()
    if abs(mo)<1e-6*np.abs(to).max() or so<1e-6*np.abs(to).max(): continue
    # definitions
    v=metrics.nse(obs,sim,trans=t); e=1-np.mean((ts-to)**2)/np.var(to)
    if not close(v,e): B("nse",(v,e))
    for ty in ["standard","normalised","log"]:
        v=metrics.bias(obs,sim,trans=t,type=ty); ms=ts.mean()
        e={"standard":ms/mo-1, "normalised":(ms-mo)/(ms+mo), "log": (math.log(ms/mo) if ms>1e-10 and mo>1e-10 else np.nan)}[ty]
        if not close(v,e,1e-8): B("bias_"+ty,(v,e,mo,ms))
    v=metrics.kge(obs,sim,trans=t)
    if ts.std()>1e-10:
        r=np.mean((to-mo)*(ts-ts.mean()))/so/ts.std(); e=1-math.sqrt((r-1)**2+(ts.std()/so-1)**2+(ts.mean()/mo-1)**2)
        if not close(v,e,1e-8): B("kge",(v,e))
    m=int(rng.integers(1,5)); ens = sim[:,None]*np.exp(rng.normal(size=(n,m))*0.1)
    for st in ["mean","median"]:
        for ty in ["Pearson","Spearman"]:
            v=metrics.corr(obs,ens,trans=t,stat=st,type=ty)
            te=f(ens); s = te.mean(axis=1) if st=="mean" else np.median(te,axis=1)
            if ty=="Pearson": e=np.mean((to-mo)*(s-s.mean()))/so/s.std()
            else:
                a,b=rankdata(to),rankdata(s); e=np.mean((a-a.mean())*(b-b.mean()))/a.std()/b.std()
            if not close(v,e,1e-8): B("corr_%s_%s"%(st,ty),(v,e))
    # perfect
    if not close(metrics.nse(obs,obs,trans=t),1) or not close(metrics.kge(obs,obs,trans=t),1) or not close(metrics.bias(obs,obs,trans=t),0): B("perfect",())
    # excludenull
    o2=obs.copy(); s2=sim.copy(); k=rng.integers(0,n,size=3); o2[k[0]]=np.nan; s2[k[1]]=np.inf; s2[k[2]]=np.nan
    keep=np.isfinite(f(o2))&np.isfinite(f(s2))
    if keep.sum()>=3 and f(o2[keep]).std()>1e-6:
        for fn in [metrics.nse, metrics.kge, metrics.bias]:
            v=fn(o2,s2,trans=t,excludenull=True); e=fn(o2[keep],s2[keep],trans=t)
            if not close(v,e): B("excl_"+fn.__name__,(v,e))
# binary
for it in range(2000):
    TN,FP,FN,TP = rng.integers(1,200,size=4)
    s,_=metrics.binary([[TN,FP],[FN,TP]])
    H=TP/(TP+FN); F=FP/(FP+TN); th=(TP*TN)/(FP*FN)
    e={"hitrate":H,"falsealarm":F,"precision":TP/(TP+FP),"accuracy":(TP+TN)/(TP+TN+FP+FN),"bias":(TP+FP)/(TP+FN),"F1":2*TP/(2*TP+FP+FN),
       "MCC":(TP*TN-FP*FN)/math.sqrt(float(TP+FP)*float(TP+FN)*float(TN+FP)*float(TN+FN)),"LOR":math.log(th),"ORSS":(th-1)/(th+1)}
    for k_,v_ in e.items():
        if not close(s[k_],v_,1e-9): B("bin_"+k_,(s[k_],v_,(TN,FP,FN,TP)))
print(bad)
