import os, sys, re, warnings
import numpy as np, pandas as pd
warnings.simplefilter("ignore")
from hydrodiy.data import dutils, qualitycontrol, signatures
from hydrodiy.stat import metrics, sutils, armodels
from hydrodiy.gis.grid import Grid, Catchment, accumulate, voronoi, slope, delineate_river
from hydrodiy.gis import gutils
import c_hydrodiy_data, c_hydrodiy_gis, c_hydrodiy_stat
print(c_hydrodiy_gis.__file__)
def run_forked(fn):
    r, w = os.pipe()
    pid = os.fork()
    if pid == 0:
        os.close(r); os.dup2(w, 2)
        dn = os.open(os.devnull, os.O_WRONLY); os.dup2(dn, 1)
        code = 0
        try: fn()
        except BaseException as e: code = 3
        os._exit(code)
    os.close(w); out=b""
    while True:
        b=os.read(r,65536)
        if not b: break
        out+=b
    os.close(r); _, st = os.waitpid(pid,0)
    return st, out.decode(errors="replace")
def mkse(times, vals): return pd.Series(vals, index=pd.DatetimeIndex(pd.to_datetime(times)).as_unit("ns"))
def fdgrid(a):
    a=np.atleast_2d(np.array(a)); g=Grid("fd", a.shape[1], a.shape[0], dtype=np.int64); g.data=a; return g
def cat1():
    c = Catchment.from_dict({"name":"c","idxcell_outlet":4,"idxinlets":None,"idxcells_area":[4],"idxcells_area_filled":[4],"flowdir":fdgrid(np.zeros((3,3))).to_dict()}); c.delineate_boundary()
def vor():
    c = Catchment("c", fdgrid([[1,1,1,0]])); c.delineate_area(3); voronoi(c, np.array([[0.,0.]]))
cases = {
 "agg0": lambda: dutils.aggregate(np.zeros(0,dtype=int), np.zeros(0)),
 "agg1": lambda: dutils.aggregate(np.zeros(1,dtype=int), np.zeros(1)),
 "flat0": lambda: dutils.flathomogen(np.zeros(0,dtype=int), np.zeros(0)),
 "islin0": lambda: qualitycontrol.islinear(np.zeros(0)),
 "islin1": lambda: qualitycontrol.islinear(np.zeros(1)),
 "islin2": lambda: qualitycontrol.islinear(np.zeros(2)),
 "eck0": lambda: signatures.eckhardt(np.zeros(0)),
 "eck1": lambda: signatures.eckhardt(np.zeros(1)),
 "var2h_short": lambda: dutils.var2h(mkse(["2000-01-01 00:10:00","2000-01-01 00:50:00"],[1.,1.])),
 "var2h_1": lambda: dutils.var2h(mkse(["2000-01-01 00:10:00"],[1.])),
 "var2h_long": lambda: dutils.var2h(mkse(["1900-01-01 00:10:00","1975-01-01 00:50:00"],[1.,1.])),
 "crps1": lambda: metrics.crps(np.zeros(1), np.zeros((1,1))),
 "dscore": lambda: metrics.dscore(np.zeros(2), np.zeros((2,2))),
 "ensrank_m1": lambda: c_hydrodiy_stat.ensrank(1e-6, np.zeros((2,1)), np.zeros((2,2)), np.zeros(2)),
 "ensrank_m0": lambda: c_hydrodiy_stat.ensrank(1e-6, np.zeros((2,0)), np.zeros((2,2)), np.zeros(2)),
 "ad0": lambda: metrics.anderson_darling_test(np.zeros(0)),
 "ad1": lambda: metrics.anderson_darling_test(np.array([0.5])),
 "ar0": lambda: armodels.armodel_sim(np.zeros(0), np.zeros(5)),
 "ar11": lambda: armodels.armodel_sim(np.zeros(11), np.zeros(5)),
 "arres11": lambda: armodels.armodel_residual(np.zeros(11), np.zeros(5), 0.),
 "pareto0": lambda: sutils.pareto_front(np.zeros((0,2))),
 "pareto_c0": lambda: sutils.pareto_front(np.zeros((3,0))),
 "coord_nan": lambda: fdgrid(np.zeros((2,2))).coord2cell([[np.nan, np.nan]]),
 "coord_inf": lambda: fdgrid(np.zeros((2,2))).coord2cell([[np.inf, -np.inf]]),
 "coord_huge": lambda: fdgrid(np.zeros((2,2))).coord2cell([[1e300, 1e300]]),
 "cell2coord_bad": lambda: fdgrid(np.zeros((2,2))).cell2coord([-1, 4, 2**62]),
 "neigh_bad": lambda: fdgrid(np.zeros((2,2))).neighbours(7),
 "slice": lambda: fdgrid(np.zeros((2,2))).clone(np.float64).slice([[0.5,0.5],[5,5],[np.nan,1], [-0.2,-0.2]]),
 "acc_nprint0": lambda: accumulate(fdgrid([[1,1,0]]), nprint=0),
 "slope_nprint0": lambda: slope(fdgrid([[1,1,0]]), fdgrid([[3,2,1]]).clone(np.float64), nprint=0),
 "acc_max0": lambda: accumulate(fdgrid([[1,1,0]]), max_accumulated_cells=0),
 "vor_more_cells": vor,
 "cat1_boundary": cat1,
 "up_bad": lambda: Catchment("c", fdgrid(np.zeros((2,2)))).upstream([9]),
 "delin_bad_outlet": lambda: Catchment("c", fdgrid(np.zeros((2,2)))).delineate_area(9),
 "delin_nval0": lambda: Catchment("c", fdgrid([[1,1,0]])).delineate_area(2, nval=0),
 "delin_nval1": lambda: Catchment("c", fdgrid([[1,1,0]])).delineate_area(2, nval=1),
 "delin_nval2": lambda: Catchment("c", fdgrid([[1,1,0]])).delineate_area(2, nval=2),
 "delin_nval3": lambda: Catchment("c", fdgrid([[1,1,0]])).delineate_area(2, nval=3),
 "river_nval0": lambda: delineate_river(fdgrid([[1,1,0]]), 0, nval=0),
 "river_nval1": lambda: delineate_river(fdgrid([[1,1,0]]), 0, nval=1),
 "river_bad": lambda: delineate_river(fdgrid([[1,1,0]]), 5),
 "pip0": lambda: gutils.points_inside_polygon(np.zeros((0,2)), np.array([[0.,0],[1,0],[0,1]])),
 "pip_poly1": lambda: gutils.points_inside_polygon(np.zeros((2,2)), np.array([[0.,0]])),
 "pip_poly0": lambda: gutils.points_inside_polygon(np.zeros((2,2)), np.zeros((0,2))),
 "getdate_nan": lambda: c_hydrodiy_data.getdate(np.nan, np.zeros(3,dtype=np.int32)),
 "getdate_huge": lambda: c_hydrodiy_data.getdate(1e300, np.zeros(3,dtype=np.int32)),
 "add1month_max": lambda: c_hydrodiy_data.add1month(np.array([2147483647,12,1],dtype=np.int32)),
 "combi": lambda: [c_hydrodiy_data.combi(n,k) for n in range(-5,70) for k in range(-5,70)],
 "intersect_nolap": lambda: Catchment("c", fdgrid([[1,1,0]])).intersect(Grid("g",2,2,xllcorner=100.)),
 "fpl": lambda: (lambda c: (c.delineate_area(2), c.compute_flowpathlengths()))(Catchment("c", fdgrid([[1,1,1]]))),
 "olslev": lambda: c_hydrodiy_stat.olsleverage(np.zeros((3,2)), np.zeros((2,2)), np.zeros(3)),
}
for k, fn in cases.items():
    st, out = run_forked(fn)
    if os.WIFSIGNALED(st): res = f"SIGNAL {os.WTERMSIG(st)}"
    else: res = f"exit {os.WEXITSTATUS(st)}"
    m = re.search(r"(ERROR: AddressSanitizer: [a-z\-]+|runtime error: [^\n]+)", out)
    loc = re.findall(r"#\d+ 0x[0-9a-f]+ in (\S+) (/repo\S+)", out)
    print(f"{k:18s} {res:10s} {m.group(1) if m else ''} {loc[0] if loc else ''}")
