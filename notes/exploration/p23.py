"""C05 prototype: hypothesis in parent, fork per example, ASan-built extensions"""
import os, sys, re, time, warnings
import numpy as np, pandas as pd
warnings.simplefilter("ignore")
import hypothesis
from hypothesis import given, settings, strategies as st, HealthCheck, seed, Phase
from hydrodiy.data import dutils, qualitycontrol, signatures
import c_hydrodiy_data
assert "asan" in c_hydrodiy_data.__file__, c_hydrodiy_data.__file__
class SanitizerFailure(Exception): pass
stats = {"n":0}
def run_forked(fn, timeout=20):
    r, w = os.pipe(); pid = os.fork()
    if pid == 0:
        try:
            os.close(r); os.dup2(w, 2); dn = os.open(os.devnull, os.O_WRONLY); os.dup2(dn, 1)
            try: fn()
            except Exception: pass
        finally:
            os._exit(0)
    os.close(w); out=b""
    while True:
        b=os.read(r,65536)
        if not b: break
        out+=b
    os.close(r); _, status = os.waitpid(pid,0)
    stats["n"]+=1
    if os.WIFSIGNALED(status) or os.WEXITSTATUS(status)!=0:
        txt = out.decode(errors="replace")
        m = re.search(r"(AddressSanitizer: [a-z\-]+|runtime error: [^\n]+|SEGV)", txt)
        loc = re.findall(r"in (\S+) /\S*?/(src/hydrodiy/\S+?):(\d+)", txt)
        raise SanitizerFailure(f"{m.group(1) if m else status} @ {loc[0] if loc else '?'}")
vals = st.one_of(st.floats(allow_nan=True, allow_infinity=True), st.sampled_from([0.,-1.,1e300,-1e300]))
@seed(int(os.environ.get("VERIF_SEED","1")))
@settings(max_examples=300, deadline=None, database=None, suppress_health_check=list(HealthCheck), report_multiple_bugs=False)
@given(n=st.integers(0,6), data=st.data(), op=st.integers(0,3), maxnan=st.integers(-1,3))
def test_aggregate(n, data, op, maxnan):
    idx = np.array(sorted(data.draw(st.lists(st.integers(-3,3), min_size=n, max_size=n))), dtype=np.int64)
    x = np.array(data.draw(st.lists(vals, min_size=n, max_size=n)), dtype=np.float64)
    run_forked(lambda: dutils.aggregate(idx, x, op, maxnan))
@seed(int(os.environ.get("VERIF_SEED","1")))
@settings(max_examples=300, deadline=None, database=None, suppress_health_check=list(HealthCheck), report_multiple_bugs=False)
@given(x=st.lists(vals, min_size=0, max_size=6), npoints=st.integers(1,4))
def test_islin(x, npoints):
    run_forked(lambda: qualitycontrol.islinear(np.array(x, dtype=np.float64), npoints))
for t in [test_aggregate, test_islin]:
    t0=time.time(); stats["n"]=0
    try:
        t(); print(t.__name__, "PASS", stats["n"], round(time.time()-t0,1))
    except SanitizerFailure as e:
        print(t.__name__, "FAIL", e, "forks", stats["n"], round(time.time()-t0,1))
