import numpy as np, pandas as pd, warnings
warnings.simplefilter("ignore")
from hydrodiy.stat import metrics
rng = np.random.default_rng(1)
def ref_crps(obs, ens):
    n, m = ens.shape
    tot = 0
    for i in range(n):
        x = ens[i]
        tot += np.mean(np.abs(x-obs[i])) - 0.5*np.mean(np.abs(x[:,None]-x[None,:]))
    return tot/n
def ref_unc(obs):
    return 0.5*np.mean(np.abs(obs[:,None]-obs[None,:]))
worst = 0; bad=0
for it in range(3000):
    n = rng.integers(1, 8); m = rng.integers(1, 7)
    mode = rng.integers(0,4)
    if mode==0:
        obs = rng.normal(size=n); ens = rng.normal(size=(n,m))
    elif mode==1:
        obs = rng.integers(-3,4,size=n).astype(float); ens = rng.integers(-3,4,size=(n,m)).astype(float)
    elif mode==2:
        ens = rng.integers(-3,4,size=(n,m)).astype(float); obs = ens.min(axis=1)-rng.integers(0,3,size=n)
    else:
        ens = np.repeat(rng.integers(-3,4,size=(n,1)).astype(float), m, axis=1); obs = rng.integers(-3,4,size=n).astype(float)
    d, t = metrics.crps(obs, ens)
    r = ref_crps(obs, ens)
    e1 = abs(d["crps"]-r); e2 = abs(d["crps"]-(d["reliability"]+d["potential"])); e3=abs(d["resolution"]-(d["uncertainty"]-d["potential"])); e4 = abs(d["uncertainty"]-ref_unc(obs))
    neg = min(d["reliability"], d["potential"], d["uncertainty"])
    if max(e1,e2,e3,e4)>1e-12 or neg < -1e-15:
        bad+=1
        if bad<5: print(mode, n, m, obs, ens, d.to_dict(), r)
print("bad", bad)
