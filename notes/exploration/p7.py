import numpy as np, itertools, math, warnings, os, sys, time
warnings.simplefilter("ignore")
from hydrodiy.gis.grid import Grid, Catchment, delineate_river, accumulate
CODES = {32:(-1,-1),64:(-1,0),128:(-1,1),16:(0,-1),1:(0,1),8:(1,-1),4:(1,0),2:(1,1)}
def down_model(fd, c):
    nr,nc = fd.shape; r,k = divmod(c,nc); code = fd[r,k]
    if code==0: return -2
    if code not in CODES: return -1
    dr,dc = CODES[code]; r2,k2=r+dr,k+dc
    if r2<0 or r2>=nr or k2<0 or k2>=nc: return -1
    return r2*nc+k2
def has_cycle(fd):
    n = fd.size
    for c in range(n):
        seen=set(); x=c
        while x>=0:
            if x in seen: return True
            seen.add(x); x=down_model(fd,x)
    return False
def area_model(fd, outlet, inlets):
    n=fd.size; res=set()
    for c in range(n):
        if c==outlet: continue
        x=c; ok=False; steps=0
        while x>=0 and steps<=n:
            if x in inlets: break
            if x==outlet: ok=True; break
            x=down_model(fd,x); steps+=1
        if ok: res.add(c)
    if res: res.add(outlet)
    return res
devnull = os.open(os.devnull, os.O_WRONLY); os.dup2(devnull, 1)
def log(*a): print(*a, file=sys.stderr)
codes = [0,1,2,4,8,16,32,64,128,3]
bad = 0; ncase=0; t0=time.time()
for (nr,nc) in [(1,1),(1,2),(2,1),(1,3),(3,1),(2,2)]:
    for vals in itertools.product(codes, repeat=nr*nc):
        fd = np.array(vals).reshape(nr,nc)
        g = Grid("fd", nc, nr, dtype=np.int64); g.data = fd
        ca = Catchment("c", g)
        n = nr*nc
        dm = [down_model(fd,c) for c in range(n)]
        d = ca.downstream(np.arange(n)); u = ca.upstream(np.arange(n))
        ncase+=1
        if list(d)!=dm: bad+=1; log("down", fd, d, dm)
        for c in range(n):
            ups = set(x for x in u[c] if x>=0)
            if ups != set(x for x in range(n) if dm[x]==c): bad+=1; log("up", fd, c, u[c])
        cyc = has_cycle(fd)
        for outlet in range(n):
            for inl in [[], [(outlet+1)%n]] if n>1 else [[]]:
                try:
                    ca.delineate_area(outlet, inl if inl else None, nval=4*n+8)
                    a = list(ca.idxcells_area)
                    m = area_model(fd, outlet, set(inl))
                    if cyc: continue
                    if set(a)!=m or len(a)!=len(set(a)) or not set(a)<=set(ca.idxcells_area_filled):
                        bad+=1; log("area", fd, outlet, inl, a, m)
                    if a:
                        ca.compute_flowpathlengths()
                        fp = ca.flowpathlengths.values
                        for row in fp:
                            c=int(row[0])
                            if c==outlet: continue
                            L=0; x=c
                            while x!=outlet:
                                y=dm[x]; r1,k1=divmod(x,nc); r2,k2=divmod(y,nc)
                                L+= 1 if (r1==r2 or k1==k2) else math.sqrt(2); x=y
                            if int(row[1])!=outlet or abs(row[2]-L)>1e-9:
                                bad+=1; 
                                if bad<30: log("fpl", fd.tolist(), outlet, row, L)
                except ValueError as e:
                    if not cyc: bad+=1; log("ERR", fd, outlet, inl, e)
log("cases", ncase, "bad", bad, time.time()-t0)
