import numpy as np, warnings
warnings.simplefilter("ignore")
from hydrodiy.stat import metrics, transform
obs = np.array([1.,2.,3.,4.,5.,6.]); sim = np.array([1.1,2.2,2.9,np.inf,5.2,np.nan])
for f in [metrics.nse, metrics.kge, metrics.bias]:
    print(f.__name__, f(obs, sim, excludenull=True), f(obs[[0,1,2,4]], sim[[0,1,2,4]]))
print("corr", metrics.corr(obs, sim, excludenull=True), metrics.corr(obs[[0,1,2,4]], sim[[0,1,2,4]]))
# transform producing nan: log of negative
t = transform.Log(); t.nu = 0.1
obs2 = np.array([1.,2.,-3.,4.,5.]); sim2=np.array([1.2,2.1,3.,4.4,-1.])
print("nse log", metrics.nse(obs2, sim2, trans=t, excludenull=True), metrics.nse(obs2[[0,1,3]], sim2[[0,1,3]], trans=t))
# log(0+nu) fine; Reciprocal etc
obs3 = np.array([1.,2.,0.,4.,5.]); t2 = transform.Log(); 
print("nse log0", metrics.nse(obs3, obs3+0.1, trans=t2, excludenull=True))
