import numpy as np, pandas as pd, warnings, os, tempfile, zipfile
warnings.simplefilter("ignore")
from hydrodiy.data import dutils
from hydrodiy.gis.grid import Grid, Catchment, accumulate, voronoi
from hydrodiy.io import csv
print("pandas", pd.__version__, "numpy", np.__version__)
# C08
idx = np.array([1,1,1,2,2,2])
x = np.array([-3.,-1.,-2., 5., np.nan, np.nan])
print("max", dutils.aggregate(idx, x, 2, maxnan=3))
print("tail", dutils.aggregate(idx, x, 3, maxnan=3))
print("mean", dutils.aggregate(idx, x, 1, maxnan=3))
print("flat", dutils.flathomogen(idx, x, maxnan=3))
# C07
g = Grid("g", 4, 3, cellsize=2., xllcorner=10., yllcorner=-5.)
print("outside-left", g.coord2cell([[9.5, -4.], [10.5,-5.5], [9.5,-5.5], [7.9,-4], [18.5, 0]]))
# C11
fd = Grid("fd", 3, 1, dtype=np.int64); fd.data = np.array([[1,1,1]])
ta = Grid("ta", 3, 1, dtype=np.float64); ta.data = np.array([[1., 10., 100.]])
import io, contextlib
acc = accumulate(fd, ta)
print("acc", acc.data)
# C13 save/load nodata, int64 clipping
d = tempfile.mkdtemp()
g = Grid("g", 2, 2, dtype=np.int64, nodata=-9999)
g.data = np.array([[2**62+1, -2**62-1],[3, 4]])
print("int64 data", g.data, g.nodata)
g.save(os.path.join(d, "a.bil"))
print(open(os.path.join(d,"a.hdr")).read())
h = Grid.from_header(os.path.join(d,"a.hdr"))
print(h.data, h.nodata, h.dtype, h.name)
# big endian
data = np.arange(6).reshape(2,3).astype(">f4")
data.tofile(os.path.join(d,"b.bil"))
open(os.path.join(d,"b.hdr"),"w").write("NROWS 2\nNCOLS 3\nXLLCORNER 0\nYLLCORNER 0\nCELLSIZE 1\nNBITS 32\nPIXELTYPE FLOAT\nBYTEORDER M\n")
h = Grid.from_header(os.path.join(d,"b.hdr")); print("BE", h.data, h.dtype)
# catchment from_dict inlets
fd = Grid("fd", 3, 3, dtype=np.int64); fd.data = np.array([[4,4,4],[4,4,4],[1,1,0]])
c = Catchment("c", fd); c.delineate_area(8, idxinlets=[3])
print("area", c.idxcells_area, c.idxinlets)
c2 = Catchment.from_dict(c.to_dict()); print("inlets after from_dict", c2.idxinlets, c2.idxcell_outlet)
# C09 zip names
df = pd.DataFrame({"a":[1.5,2.5],"b":["x,y",'q"r']})
src = os.path.join(d, "s.py"); open(src,"w").close()
for fn in ["t1.csv","t2.zip","t3","t4.txt"]:
    p = os.path.join(d, fn)
    try:
        csv.write_csv(df, p, {"k":"v:w"}, src, write_sys_info=False)
        print(fn, sorted(os.listdir(d)), [zipfile.ZipFile(os.path.join(d,f)).namelist() for f in os.listdir(d) if f.startswith(fn.split('.')[0]) and f.endswith("zip")])
        r, cm = csv.read_csv(p); print(" read ok", r.values.tolist(), cm.get("k"))
    except Exception as e: print(fn, "ERR", repr(e))
