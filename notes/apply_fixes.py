#!/usr/bin/env python3
"""Planned repairs of the genuine defects listed in DESIGN.md section 4.

Not part of the verification machinery: this is the repair plan in
executable form.  It applies each repair to a checkout of hydrodiy and
makes one commit per defect (message starting with "fix:").

usage: apply_fixes.py <repo root> [--only D1,D2,...] [--no-commit]

Files with CRLF line endings (the C kernels) keep them.
"""
import subprocess
import sys
from pathlib import Path


def sub(path, old, new, count=1):
    b = path.read_bytes()
    crlf = b"\r\n" in b
    o, n = old.encode(), new.encode()
    if crlf:
        o = o.replace(b"\r\n", b"\n").replace(b"\n", b"\r\n")
        n = n.replace(b"\r\n", b"\n").replace(b"\n", b"\r\n")
    if b.count(o) < 1:
        raise SystemExit(f"pattern not found in {path}:\n{old}")
    path.write_bytes(b.replace(o, n, count))


FIXES = []


def fix(did, props, message):
    def deco(fn):
        FIXES.append((did, props, message, fn))
        return fn
    return deco


# ---------------------------------------------------------------- stat
@fix("D1", "C01,C02",
     "fix: Manly transform at lam=0\n\n"
     "The branch test was abs(lam-EPS) > 0, so lam=0 went through the\n"
     "exponential formula and returned nan (0/0), while lam=EPS hit an\n"
     "undefined variable. The jacobian also called np.one_likes.\n"
     "Use abs(lam) > EPS in forward, backward and jacobian.")
def d1(S):
    p = S / "stat/transform.py"
    sub(p, """        if abs(lam-EPS) > 0.:
            u = x / xmax
            return (np.exp(lam * u) - 1) / lam
        else:
            return u
""", """        u = x / xmax
        if abs(lam) > EPS:
            return (np.exp(lam * u) - 1) / lam
        else:
            return u
""")
    sub(p, """        if abs(lam - EPS) > 0.:
            return xmax * np.log(1 + lam * y) / lam
""", """        if abs(lam) > EPS:
            return xmax * np.log(1 + lam * y) / lam
""")
    sub(p, """        if abs(lam-EPS) > 0.:
            u = x / xmax
            return np.exp(lam * u) / xmax
        else:
            return np.one_likes(x) / xmax
""", """        if abs(lam) > EPS:
            u = x / xmax
            return np.exp(lam * u) / xmax
        else:
            return np.ones_like(x) / xmax
""")


@fix("D2", "C01",
     "fix: BoxCox2 accuracy for exponents just above the log switch\n\n"
     "(x+nu)**lam - 1 cancels catastrophically when |lam| is slightly\n"
     "larger than EPS=1e-10 (relative error of backward(forward(x)) above\n"
     "1e-6 for lam=1.0001e-10). Use expm1/log1p, which is exact in the\n"
     "limit and unchanged elsewhere.")
def d2(S):
    p = S / "stat/transform.py"
    sub(p, """        if abs(lam) > EPS:
            return (np.power(x + nu, lam) - 1) / lam
        else:
            return np.log(x + nu)
""", """        if abs(lam) > EPS:
            return np.expm1(lam * np.log(x + nu)) / lam
        else:
            return np.log(x + nu)
""")
    sub(p, """            u = lam * y + 1
            return np.power(u, 1. / lam) - nu
""", """            return np.exp(np.log1p(lam * y) / lam) - nu
""")


@fix("D3", "C04",
     "fix: odds ratio skill score for odds ratio >= 1\n\n"
     "ORSS=(theta-1)/(theta+1) was only computed for -1 < theta < 1, i.e.\n"
     "it was nan for every forecast better than random. Compute it for\n"
     "any finite non-negative odds ratio.")
def d3(S):
    sub(S / "stat/metrics.py", """    if theta > -1 and theta < 1:
        ORSS = (theta-1)/(theta+1)""", """    if theta >= 0 and np.isfinite(theta):
        ORSS = (theta-1)/(theta+1)""")


@fix("D4", "C04",
     "fix: excludenull also excludes infinite values\n\n"
     "The docstrings say pairs where obs or sim are nan or inf are\n"
     "excluded, but only nan were (pd.notnull(inf) is True).")
def d4(S):
    sub(S / "stat/metrics.py", """    idx = pd.notnull(tobs) & pd.notnull(tsim)
    if np.sum(idx) == 0:""", """    idx = pd.notnull(tobs) & pd.notnull(tsim)
    idx = idx & np.isfinite(tobs) & np.isfinite(tsim)
    if np.sum(idx) == 0:""")


# ---------------------------------------------------------------- data kernels
@fix("D17", "C08",
     "fix: aggregate max and tail operators with negative or missing values\n\n"
     "Missing values were replaced by 0 before the reduction and the max\n"
     "started from 0: the max of an all negative group was 0 and the tail\n"
     "of a group ending with nan was 0. Skip missing values and seed the\n"
     "max with the first valid value of the group.")
def d17(S):
    sub(S / "data/c_dutils.c", """        if(isnan(inp))
        {
            nagg_nan ++;
            inp = 0;
        } else
            nagg ++;

        if(operator<=1) {
            agg += inp;
        }
        else if (operator == 2){
            agg = inp > agg ? inp : agg;
        }
""", """        if(isnan(inp))
        {
            /* Missing values do not contribute to the aggregate */
            nagg_nan ++;
            continue;
        }
        nagg ++;

        if(operator<=1) {
            agg += inp;
        }
        else if (operator == 2){
            /* first valid value of the group or greater value */
            agg = (nagg == 1 || inp > agg) ? inp : agg;
        }
""")


@fix("D5", "C05",
     "fix: aggregate and flathomogen with empty inputs\n\n"
     "c_aggregate wrote outputs[0] and read aggindex[0] when nval=0.")
def d5(S):
    p = S / "data/c_dutils.c"
    sub(p, """    nan = 1./zero * zero;

    /* Initialise */
    iaprev = aggindex[0];""", """    nan = 1./zero * zero;

    /* Nothing to aggregate */
    if(nval < 1)
        return DUTILS_ERROR + __LINE__;

    /* Initialise */
    iaprev = aggindex[0];""")
    sub(p, """    nan = zero/zero;

    /* Initialise */
    iaprev = aggindex[0];""", """    nan = zero/zero;

    /* Nothing to process */
    if(nval < 1)
        return 0;

    /* Initialise */
    iaprev = aggindex[0];""")


@fix("D6", "C05",
     "fix: islin with less than two values\n\n"
     "c_islin read data[0..1] and wrote islin[0..1] whatever nval.")
def d6(S):
    sub(S / "data/c_qualitycontrol.c", """    /* initialisation */
    vprec = data[0];""", """    /* Not enough data to detect linear interpolation */
    if(nval < 2)
    {
        for(i=0; i<nval; i++) islin[i] = 0;
        return ierr;
    }

    /* initialisation */
    vprec = data[0];""")


@fix("D7", "C05",
     "fix: eckhardt filter with empty input\n\n"
     "c_eckhardt read inputs[0] and wrote outputs[0] when nval=0.")
def d7(S):
    sub(S / "data/c_baseflow.c", """    /* Time step duration in hours */""",
        """    /* Nothing to do */
    if(nval < 1)
        return 0;

    /* Time step duration in hours */""")


@fix("D8", "C05",
     "fix: var2h when no data follows the first hour\n\n"
     "The search for the first time stamp after hstartsec had no upper\n"
     "bound and read past the end of varsec when the series ends before\n"
     "the first whole hour. All periods are missing in that case.")
def d8(S):
    p = S / "data/c_var2h.c"
    sub(p, """    while(varsec[varindex]<=hstartsec) varindex++;
""", """    while(varindex<nvalvar && varsec[varindex]<=hstartsec) varindex++;
""")
    sub(p, """    nan = zero/zero;
    ierr = 0;
""", """    nan = zero/zero;
    ierr = 0;

    /* No data after hstart, all periods are missing */
    if(varindex+1>=nvalvar)
    {
        for(i=0; i<nvalh; i++) hvalues[i] = nan;
        return ierr;
    }
""")


@fix("D9", "C05",
     "fix: integer overflow in var2h for long series\n\n"
     "i*nbsec_per_period was computed with int and overflowed after\n"
     "596523 hourly periods (68 years).")
def d9(S):
    sub(S / "data/c_var2h.c",
        """        start = (double)(hstartsec+i*nbsec_per_period);""",
        """        start = (double)(hstartsec+(long long)i*nbsec_per_period);""")


@fix("D28", "C14",
     "fix: var2h period extending beyond the last observation\n\n"
     "With half-hourly periods the last computed period can end after the\n"
     "last observation; it was returned as the integral of the covered\n"
     "part divided by the whole period. Flag it as missing.")
def d28(S):
    sub(S / "data/c_var2h.c", """            if(varindex+1>=nvalvar) {
                break;
            }
""", """            if(varindex+1>=nvalvar) {
                /* Data ends before the end of the period */
                if(t2<end) miss=1;
                break;
            }
""")


@fix("D14", "C05",
     "fix: getdate with nan or huge values\n\n"
     "Converting nan or a value beyond the int range to int is undefined.")
def d14(S):
    sub(S / "data/c_dateutils.c", """    int year, month, nday, nbday;

    year = (int)(day * 1e-4);""", """    int year, month, nday, nbday;

    /* Reject values that cannot be converted to a date (nan included) */
    if(!(day >= 0 && day < 1e9))
        return DATEUTILS_ERROR + __LINE__;

    year = (int)(day * 1e-4);""")


@fix("D27", "C14",
     "fix: var2h with datetime index not stored in nanoseconds\n\n"
     "The time stamps were converted to seconds by dividing the int64\n"
     "view of the index by 1e9, which is only valid for datetime64[ns].\n"
     "With pandas 3 the default resolution is microseconds and all\n"
     "outputs were nan.")
def d27(S):
    sub(S / "data/dutils.py", """    time = se.index.tz_localize(None).values
    varsec = np.int64(time.astype(np.int64)/1000000000)
""", """    # Number of seconds since epoch regardless of the
    # resolution (s, ms, us, ns) used to store the index
    time = se.index.tz_localize(None).values
    varsec = time.astype("datetime64[s]").astype(np.int64)
""")


# ---------------------------------------------------------------- containers
@fix("D20", "C12",
     "fix: Vector.clone keeps flags, nan values and hitbounds\n\n"
     "check_hitbounds was passed in the position of check_bounds and\n"
     "accept_nan was dropped, so a vector holding an accepted nan could\n"
     "not be cloned; the hitbounds flag was not copied.")
def d20(S):
    sub(S / "data/containers.py", """        clone = Vector(self.names, self.defaults, self.mins,
                       self.maxs, self.check_hitbounds)

        clone.values = self.values.copy()
""", """        clone = Vector(self.names, self.defaults, self.mins,
                       self.maxs, check_bounds=self.check_bounds,
                       check_hitbounds=self.check_hitbounds,
                       accept_nan=self.accept_nan)

        clone.values = self.values.copy()
        clone._hitbounds = self.hitbounds
""")


@fix("D21", "C12",
     "fix: Vector.from_dict restores hitbounds\n\n"
     "The flag was set before assigning the values, which reset it.")
def d21(S):
    sub(S / "data/containers.py", """        vect._hitbounds = bool(dct["hitbounds"])
        vect.values = values
""", """        vect.values = values
        vect._hitbounds = bool(dct["hitbounds"])
""")


@fix("D22", "C12",
     "fix: params_sample does not alter the parameter bounds\n\n"
     "Infinite bounds were replaced in place in the arrays returned by\n"
     "params.mins and params.maxs, i.e. in the bounds of the transform.")
def d22(S):
    sub(S / "stat/transform.py", """        pmins = self.params.mins
        pmins[np.isinf(pmins)] = minval

        pmaxs = self.params.maxs
        pmaxs[np.isinf(pmaxs)] = maxval
""", """        pmins = self.params.mins.copy()
        pmins[np.isinf(pmins)] = minval

        pmaxs = self.params.maxs.copy()
        pmaxs[np.isinf(pmaxs)] = maxval
""")


# ---------------------------------------------------------------- gis kernels
@fix("D10", "C07,C05,C16",
     "fix: coord2cell for points left of or below the grid\n\n"
     "The offsets were truncated toward zero, so points up to one cell\n"
     "left of or below the extent were mapped to the first column or last\n"
     "row instead of -1 (this also added cells outside the grid in\n"
     "Catchment.intersect). nan, infinite or huge coordinates were\n"
     "converted to integer, which is undefined. Use floor and test the\n"
     "range before converting.")
def d10(S):
    sub(S / "gis/c_grid.c", """    long long ierr, i, nx, ny;
    ierr = 0;

    for(i=0; i<nval; i++)
    {
        nx = (long long)((xycoords[2*i]-xll)/csz);
        ny = nrows-1-(long long)((xycoords[2*i+1]-yll)/csz);

        if(nx<0 || nx>=ncols || ny<0 || ny>=nrows)
            idxcell[i] = -1;
        else
            idxcell[i] = ny*ncols+nx;
    }
""", """    long long ierr, i, nx, ny;
    double fx, fy;
    ierr = 0;

    for(i=0; i<nval; i++)
    {
        /* Use floor (not truncation) so that points left of or below
         * the grid are not mapped to the first column or last row.
         * The test also rejects nan and infinite coordinates
         * before the conversion to integer. */
        fx = floor((xycoords[2*i]-xll)/csz);
        fy = floor((xycoords[2*i+1]-yll)/csz);

        if(!(fx>=0 && fx<(double)ncols && fy>=0 && fy<(double)nrows))
        {
            idxcell[i] = -1;
            continue;
        }

        nx = (long long)fx;
        ny = nrows-1-(long long)fy;
        idxcell[i] = ny*ncols+nx;
    }
""")


@fix("D11", "C05",
     "fix: accumulate and slope with nprint=0\n\n"
     "i%nprint divided by zero. nprint=0 now means no progress message,\n"
     "as in points_inside_polygon.")
def d11(S):
    p = S / "gis/c_grid.c"
    sub(p, """        if(i%nprint == 0)
            fprintf(stdout, "\\t\\tCompleted accumulation""",
        """        if(nprint > 0 && i%nprint == 0)
            fprintf(stdout, "\\t\\tCompleted accumulation""")
    sub(p, """        if(i%nprint == 0)
            fprintf(stdout, "\\t\\tCompleted slope""",
        """        if(nprint > 0 && i%nprint == 0)
            fprintf(stdout, "\\t\\tCompleted slope""")


@fix("D12", "C05",
     "fix: voronoi reading beyond the points array\n\n"
     "xypoints was indexed with the catchment cell counter; the values\n"
     "read were overwritten by getcoord anyway.")
def d12(S):
    sub(S / "gis/c_grid.c", """        idxcell = idxcells_area[i];
        xy[0] = xypoints[2*i];
        xy[1] = xypoints[2*i+1];
""", """        idxcell = idxcells_area[i];
""")


@fix("D19", "C11",
     "fix: accumulate non uniform fields\n\n"
     "Each walk added the value of the downstream cell instead of the\n"
     "value of the cell where the walk started: the result was\n"
     "(1 + number of upstream cells) x own value, which is only right for\n"
     "uniform fields.")
def d19(S):
    sub(S / "gis/c_grid.c", """            accvalue = to_accumulate[idxdown[0]];
""", """            accvalue = to_accumulate[i];
""")


@fix("D13", "C05",
     "fix: delineate_boundary for a single cell area\n\n"
     "knext stayed at -1 when no other boundary cell exists and\n"
     "buffer[-1] was written.")
def d13(S):
    sub(S / "gis/c_catchment.c", """        buffer[knext] = -1;
        idxcell = next;""", """        if(knext >= 0)
            buffer[knext] = -1;
        idxcell = next;""")


@fix("D16", "C06",
     "fix: flow path length of diagonal steps in two column grids\n\n"
     "A step was considered orthogonal when the cell numbers differ by 1\n"
     "or ncols, which is also the case of the up-right/down-left\n"
     "neighbour when ncols=2. Compare rows and columns instead.")
def d16(S):
    p = S / "gis/c_catchment.c"
    sub(p, """            diff = abs(*idxcell_down - *idxcell_up);
            squaredist = diff == 1 || diff == ncols ? 1 : 2;

            /* Iterate */""", """            squaredist = (*idxcell_down%ncols == *idxcell_up%ncols) ||
                (*idxcell_down/ncols == *idxcell_up/ncols) ? 1 : 2;

            /* Iterate */""")
    sub(p, """            diff = abs(*idxcell_down - *idxcell_up);
            squaredist = diff == 1 || diff == ncols ? 1 : 2;
            length += sqrt(squaredist);""", """            squaredist = (*idxcell_down%ncols == *idxcell_up%ncols) ||
                (*idxcell_down/ncols == *idxcell_up/ncols) ? 1 : 2;
            length += sqrt(squaredist);""")
    sub(p, """    long long diff;
""", "")


# ---------------------------------------------------------------- grid.py
@fix("D23", "C13",
     "fix: Grid.save writes the no data value\n\n"
     "The header had no NODATA field, so a saved grid was loaded with\n"
     "nodata=0. Integer no data values are parsed as integers to keep\n"
     "them exact.")
def d23(S):
    p = S / "gis/grid.py"
    sub(p, """                elif pname.startswith("n") and not pname.startswith("nodata"):
                    pvalue = int(line[1].strip())
""", """                elif pname.startswith("n") and not pname.startswith("nodata"):
                    pvalue = int(line[1].strip())
                elif pname.startswith("nodata"):
                    # Keep integer no data values exact
                    try:
                        pvalue = int(line[1].strip())
                    except ValueError:
                        pvalue = float(line[1].strip())
""")
    sub(p, """            fh.write("{0:<14} {1}\\n".format("BYTEORDER", byteorder))
""", """            fh.write("{0:<14} {1}\\n".format("BYTEORDER", byteorder))

            # No data value
            fh.write("{0:<14} {1}\\n".format("NODATA", self.nodata))
""")


@fix("D24", "C13",
     "fix: reading big endian BIL files\n\n"
     "BYTEORDER M was parsed but the byte order was lost when converting\n"
     "the dtype to a scalar type, so the data were read as little endian.")
def d24(S):
    p = S / "gis/grid.py"
    sub(p, """            stream_data.seek(0)
            grid.load(stream_data)
""", """            stream_data.seek(0)
            grid.load(stream_data, byteorder=byteorder)
""")
    sub(p, """    def load(self, stream_data):
        \"\"\" Load data from file

        Parameters
        -----------
        stream_data : io.ByteIO or str
            Stream to binary data (only BIL file format at the moment) or
            File path.
        \"\"\"
        data = np.fromfile(stream_data, self.dtype)
""", """    def load(self, stream_data, byteorder="<"):
        \"\"\" Load data from file

        Parameters
        -----------
        stream_data : io.ByteIO or str
            Stream to binary data (only BIL file format at the moment) or
            File path.
        byteorder : str
            Byte order of the binary data
            ("<" little endian, ">" big endian).
        \"\"\"
        dtype = np.dtype(self.dtype).newbyteorder(byteorder)
        data = np.fromfile(stream_data, dtype)
""")


@fix("D25", "C13",
     "fix: large 64 bit integers altered when setting or loading grid data\n\n"
     "np.clip with infinite float bounds converts integer data to float64,\n"
     "which rounds values beyond 2**53. Skip the clipping when the bound\n"
     "is infinite.")
def d25(S):
    p = S / "gis/grid.py"
    sub(p, """        self._data = np.clip(_value, self.mindata,
                             self.maxdata).astype(self.dtype)

    @property
    def nodata(self):""", """        self._data = self._clip(_value)

    def _clip(self, value):
        \"\"\" Clip data to [mindata, maxdata] and convert to grid dtype.
        Infinite bounds are skipped to avoid converting integer
        data to float (which is not exact for large integers).
        \"\"\"
        if self.mindata > -np.inf:
            value = np.maximum(value, self.mindata)

        if self.maxdata < np.inf:
            value = np.minimum(value, self.maxdata)

        return np.asarray(value).astype(self.dtype)

    @property
    def nodata(self):""")
    sub(p, """        self._data = np.clip(data.reshape((self.nrows, self.ncols)),
                             self.mindata, self.maxdata).astype(self.dtype)
""", """        self._data = self._clip(data.reshape((self.nrows, self.ncols)))
""")


@fix("D26", "C13",
     "fix: Catchment.from_dict restores the inlets\n\n"
     "The inlets were stored in a misspelt attribute (_idxintlets).")
def d26(S):
    sub(S / "gis/grid.py", """        catchment._idxintlets = dic["idxinlets"]""",
        """        catchment._idxinlets = dic["idxinlets"]""")


# ---------------------------------------------------------------- io / plot / sutils
@fix("D18", "C09",
     "fix: name of the csv file stored in compressed archives\n\n"
     "write_csv named the zip member after the file name it was given\n"
     "while read_csv looks for [stem].csv: files written as x.zip, x or\n"
     "x.txt with compress=True could not be read back.")
def d18(S):
    sub(S / "io/csv.py", """        if compress:
            arcname = filename.name
            archive""", """        if compress:
            # read_csv expects to find [stem].csv in the zip file
            arcname = f"{filename.stem}.csv"
            archive""")


@fix("D29", "C18",
     "fix: putils.kde does not modify its input\n\n"
     "The random jitter was added in place to the array of the caller.")
def d29(S):
    sub(S / "plot/putils.py",
        """        xy += np.random.uniform(-eps, eps, size=xy.shape)""",
        """        xy = xy + np.random.uniform(-eps, eps, size=xy.shape)""")


@fix("D30", "C18",
     "fix: sutils.lstsq does not add the intercept to the input dataframe\n\n"
     "With add_intercept=True the intercept column was added to the\n"
     "dataframe of the caller.")
def d30(S):
    sub(S / "stat/sutils.py", """            cols = X.columns.tolist()
            X.loc[:, "intercept"] = ones""", """            cols = X.columns.tolist()
            X = X.copy()
            X.loc[:, "intercept"] = ones""")


@fix("D31", "C20",
     "fix: violin statistics ignore infinite values\n\n"
     "The kde already filtered non finite values, but the median and\n"
     "quantiles did not.")
def d31(S):
    sub(S / "plot/violinplot.py", """        data = self._data

        # Compute stats""", """        data = self._data

        # Compute stats from finite values only (like the kde below)
        data = data.where(np.isfinite(data))

        # Compute stats""")


def main():
    root = Path(sys.argv[1]).resolve()
    only = None
    commit = "--no-commit" not in sys.argv
    for a in sys.argv[2:]:
        if a.startswith("--only"):
            only = set(sys.argv[sys.argv.index(a) + 1].split(","))
    S = root / "src/hydrodiy"
    for did, props, message, fn in FIXES:
        if only and did not in only:
            continue
        fn(S)
        if commit:
            subprocess.run(["git", "-C", str(root), "add", "-u"], check=True)
            subprocess.run(["git", "-C", str(root), "commit", "-q", "-m",
                            message], check=True)
            sha = subprocess.run(["git", "-C", str(root), "rev-parse",
                                  "--short", "HEAD"], check=True,
                                 capture_output=True, text=True).stdout
            print(f"{did} {props} {sha.strip()} {message.splitlines()[0]}")
        else:
            print(f"{did} applied")


if __name__ == "__main__":
    main()
